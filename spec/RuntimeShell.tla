--------------------------- MODULE RuntimeShell ---------------------------
(***************************************************************************)
(* An implementation-shaped model of the control state of Runtime           *)
(* (src/mach/runtime.rs) and of the calling protocol of the terminal        *)
(* (src/term/mod.rs): one action per critical section of enter / execute /  *)
(* interrupt / get_listing / set_listing.  What the BASIC program itself    *)
(* does is abstracted to the nondeterministic VmStep; the content of the    *)
(* lines entered is abstracted to its class.  The model decides what C03    *)
(* needs: every call returns into a state the protocol can continue from    *)
(* (ProtocolSafe), after one interrupt and no further input the prompt is   *)
(* reached (Converges, under weak fairness of execute), compiled code is    *)
(* never older than the listing when program code runs (CacheCoherent).     *)
(* TraceShell validates recorded call sequences of the real interpreter     *)
(* against it; a call that panics or does not return has no counterpart.    *)
(***************************************************************************)
EXTENDS Integers, Sequences, FiniteSets, TLC

States == {"Intro", "Stopped", "Listing", "RuntimeError", "Running", "Input", "InputRedo",
           "InputRunning", "Interrupt", "Inkey"}

VARIABLES state,    \* run state
          cont,     \* state CONT would restore ("Stopped": cannot continue)
          direct,   \* pc is in the code of the direct line (pc >= entry_address)
          entry0,   \* entry_address = 0: the READY prompt has been printed
          dirty,    \* listing changed since the last compile
          colpos,   \* print column > 0
          ierr,     \* the compiled program has compile-time errors
          derr,     \* the direct line has compile-time errors
          ui,       \* what the terminal does next: "exec" | "line" | "reply" | "key" | "file"
          ev,       \* the event returned by the last execute ("" after other calls)
          lv, cv,   \* version of the listing / of the listing the program was compiled from
          snaps,    \* live listing snapshots held by the terminal
          drain     \* an interrupt was delivered and no further input is given
vars == <<state, cont, direct, entry0, dirty, colpos, ierr, derr, ui, ev, lv, cv, snaps, drain>>

MaxV == 3
Bump(v) == IF v < MaxV THEN v + 1 ELSE v

Init == /\ state = "Intro" /\ cont = "Stopped" /\ direct = FALSE /\ entry0 = FALSE /\ dirty = FALSE
        /\ colpos = FALSE /\ ierr = FALSE /\ derr = FALSE /\ ui = "exec" /\ ev = "" /\ lv = 0 /\ cv = 0
        /\ snaps = 0 /\ drain = FALSE

(***************************** enter ***************************************)
\* a line typed at the prompt; cls: its class
EnterLine(cls) ==
  /\ ui = "line" /\ ~drain
  /\ ev' = "" /\ ui' = "exec"
  /\ CASE cls = "long" ->       \* longer than the line buffer
            /\ state' = "RuntimeError"
            /\ UNCHANGED <<cont, direct, entry0, dirty, colpos, ierr, derr, lv, cv, snaps, drain>>
       [] cls = "empty" ->
            UNCHANGED <<state, cont, direct, entry0, dirty, colpos, ierr, derr, lv, cv, snaps, drain>>
       [] cls \in {"numbered", "bare"} ->     \* insert / replace / delete: copy-on-write for snapshots
            /\ cont' = "Stopped"
            /\ \/ dirty' = TRUE /\ lv' = Bump(lv)
               \/ cls = "bare" /\ dirty' = dirty /\ lv' = lv          \* the line did not exist
            /\ UNCHANGED <<state, direct, entry0, colpos, ierr, derr, cv, snaps, drain>>
       [] cls = "direct" ->
            /\ dirty' = FALSE
            /\ cv' = IF dirty THEN lv ELSE cv
            /\ ierr' \in (IF dirty THEN BOOLEAN ELSE {ierr})
            /\ derr' \in BOOLEAN
            /\ direct' = TRUE /\ entry0' = FALSE /\ state' = "Running"
            /\ UNCHANGED <<cont, colpos, lv, snaps, drain>>
\* the reply to INPUT
EnterReply ==
  /\ ui = "reply" /\ ~drain
  /\ state' \in {"InputRedo", "InputRunning"}
  /\ colpos' = FALSE /\ ui' = "exec" /\ ev' = ""
  /\ UNCHANGED <<cont, direct, entry0, dirty, ierr, derr, lv, cv, snaps, drain>>
\* the key for INKEY$
EnterKey ==
  /\ ui = "key" /\ ~drain
  /\ state' = "Running" /\ ui' = "exec" /\ ev' = ""
  /\ UNCHANGED <<cont, direct, entry0, dirty, colpos, ierr, derr, lv, cv, snaps, drain>>

(***************************** interrupt ***********************************)
\* CTRL-C: noticed at the top of the terminal's loop, or while it reads an INPUT reply
Interrupt ==
  /\ ui \in {"exec", "reply"} /\ ~drain
  /\ cont' = IF direct THEN "Stopped" ELSE state
  /\ state' = "Interrupt"
  /\ ui' = "exec" /\ ev' = "" /\ drain' \in BOOLEAN
  /\ UNCHANGED <<direct, entry0, dirty, colpos, ierr, derr, lv, cv, snaps>>

(***************************** snapshots, files *****************************)
Snapshot == /\ snaps < 2 /\ snaps' = snaps + 1 /\ ~drain
            /\ UNCHANGED <<state, cont, direct, entry0, dirty, colpos, ierr, derr, ui, ev, lv, cv, drain>>
Release  == /\ snaps > 0 /\ snaps' = snaps - 1 /\ ~drain
            /\ UNCHANGED <<state, cont, direct, entry0, dirty, colpos, ierr, derr, ui, ev, lv, cv, drain>>
\* LOAD / RUN "file": the terminal installs a new listing (NEW, then optionally RUN)
SetListing(run) ==
  /\ ui = "file" /\ ~drain
  /\ cont' = "Stopped" /\ lv' = Bump(lv) /\ ev' = "" /\ ui' = "exec"
  /\ IF run THEN /\ dirty' = FALSE /\ cv' = Bump(lv) /\ ierr' \in BOOLEAN /\ derr' = FALSE
                 /\ direct' = TRUE /\ entry0' = FALSE /\ state' = "Running"
            ELSE /\ dirty' = TRUE /\ state' = "Stopped" /\ ierr' = FALSE /\ derr' = FALSE
                 /\ UNCHANGED <<cv, direct, entry0>>
  /\ UNCHANGED <<colpos, snaps, drain>>
\* a file event the terminal could not serve (file not found): it just goes on
FileFailed == /\ ui = "file" /\ ui' = "exec" /\ ev' = ""
              /\ UNCHANGED <<state, cont, direct, entry0, dirty, colpos, ierr, derr, lv, cv, snaps, drain>>

(***************************** execute *************************************)
\* the READY prompt: printed once per return to the prompt
\* (entry_address = 0 makes every address count as direct-mode code: direct = TRUE)
ReadyOrStopped ==
  IF ~entry0 THEN entry0' = TRUE /\ direct' = TRUE /\ colpos' = FALSE /\ ev' = "Print" /\ ui' = "exec"
  ELSE ev' = "Stopped" /\ ui' = "line" /\ UNCHANGED <<entry0, direct, colpos>>

\* reporting a runtime error takes two calls when the cursor is not in column 0
ReportError ==
  IF colpos THEN /\ colpos' = FALSE /\ ev' = "Print" /\ state' = "RuntimeError" /\ ui' = "exec"
  ELSE /\ state' = "Stopped" /\ ev' = "Errors" /\ ui' = "exec" /\ UNCHANGED colpos

\* One bounded slice of the virtual machine, from Running or InputRunning: any number of silent
\* instructions -- control moving between the direct line and the program (d: where it is when
\* the slice ends; entering the program is refused when it has compile-time errors, and its code
\* is current), CLEAR or a resumed CONT cancelling the continuation (c) -- and then one of the
\* outcomes below.
VmOutcome(from, d, c) ==
  \/ \* nothing more, or output
     /\ ev' \in {"Running", "Print", "Cls"} /\ ui' = "exec"
     /\ state' \in (IF from = "InputRunning" THEN {"InputRunning", "Running"} ELSE {"Running"})
     /\ colpos' \in BOOLEAN /\ direct' = d /\ cont' = c
     /\ UNCHANGED <<entry0, dirty, lv, cv, ierr, derr>>
  \/ \* END, or running off the end: back to the prompt (which is printed in the same call)
     /\ state' = "Stopped" /\ cont' \in (IF d THEN {c, "Stopped"} ELSE {"Running", "Stopped"})
     /\ entry0' = TRUE /\ direct' = TRUE /\ colpos' = FALSE /\ ev' = "Print" /\ ui' = "exec"
     /\ UNCHANGED <<dirty, lv, cv, ierr, derr>>
  \/ \* a runtime error, STOP: reported by the following calls (also when the call began while the
     \* fields of an INPUT reply were being assigned and the INPUT finished within it)
     /\ state' = "RuntimeError" /\ cont' \in (IF d THEN {"Stopped"} ELSE {"Running", "Stopped"})
     /\ ev' = "Running" /\ ui' = "exec" /\ colpos' \in BOOLEAN /\ direct' = d
     /\ UNCHANGED <<entry0, dirty, lv, cv, ierr, derr>>
  \/ \* an unacceptable INPUT field
     /\ from = "InputRunning" /\ state' = "InputRedo" /\ ev' = "Running" /\ ui' = "exec"
     /\ direct' = d /\ cont' = c
     /\ UNCHANGED <<entry0, dirty, colpos, lv, cv, ierr, derr>>
  \/ \* INPUT, INKEY$, LIST statements
     /\ \/ state' = "Input" /\ ev' = "Running" /\ ui' = "exec"
        \/ state' = "Inkey" /\ ev' = "Inkey" /\ ui' = "key"
        \/ state' = "Listing" /\ ev' = "Running" /\ ui' = "exec"
     /\ colpos' \in BOOLEAN /\ direct' = d /\ cont' = c
     /\ UNCHANGED <<entry0, dirty, lv, cv, ierr, derr>>
  \/ \* a jump into a program that has compile-time errors: refused
     /\ ierr /\ state' = "Stopped" /\ cont' = "Stopped" /\ ev' = "Errors" /\ ui' = "exec"
     /\ direct' = FALSE /\ colpos' \in BOOLEAN
     /\ UNCHANGED <<entry0, dirty, lv, cv, ierr, derr>>
  \/ \* RENUM refused because of compile-time errors: they are shown, the line goes on
     /\ d /\ ierr /\ state' = "Running" /\ ev' = "Errors" /\ ui' = "exec" /\ direct' = d /\ cont' = c
     /\ colpos' \in BOOLEAN
     /\ UNCHANGED <<entry0, dirty, lv, cv, ierr, derr>>
  \/ \* CONT: an interrupted state other than Running comes back and the call returns
     /\ d /\ c \notin {"Stopped", "Running"}
     /\ state' = c /\ cont' = "Stopped" /\ direct' \in BOOLEAN
     /\ ev' = "Running" /\ ui' = "exec" /\ colpos' \in BOOLEAN
     /\ UNCHANGED <<entry0, dirty, lv, cv, ierr, derr>>
  \/ \* NEW, DELETE, RENUM: the listing changes, the line ends (NEW also forgets the diagnostics)
     /\ state' = "Stopped" /\ cont' = "Stopped" /\ dirty' = TRUE /\ lv' = Bump(lv)
     /\ ierr' \in {ierr, FALSE} /\ derr' \in {derr, FALSE}
     /\ entry0' = TRUE /\ direct' = TRUE /\ colpos' = FALSE /\ ev' = "Print" /\ ui' = "exec"
     /\ UNCHANGED <<cv>>
  \/ \* LOAD / SAVE / RUN "file": the terminal is asked to do it
     /\ d
     /\ state' = "Stopped" /\ ev' \in {"Load", "Save", "Run"} /\ ui' = "file" /\ direct' = d /\ cont' = c
     /\ colpos' \in BOOLEAN
     /\ UNCHANGED <<entry0, dirty, lv, cv, ierr, derr>>
VmStep(from) ==
  \E d \in BOOLEAN : \E c \in {cont, "Stopped"} :
     /\ (~d) => (cv = lv)                        \* program code is the compile of the current listing
     /\ (direct /\ ~d) => ~ierr                  \* the jump gate
     /\ VmOutcome(from, d, c)

Execute ==
  /\ ui = "exec"
  /\ UNCHANGED <<snaps>>
  /\ CASE state = "Intro" ->
            /\ state' = "Stopped" /\ ev' = "Print" /\ ui' = "exec" /\ colpos' = FALSE
            /\ UNCHANGED <<cont, direct, entry0, dirty, ierr, derr, lv, cv>>
       [] state = "Stopped" ->
            /\ ReadyOrStopped /\ UNCHANGED <<state, cont, dirty, ierr, derr, lv, cv>>
       [] state \in {"Interrupt", "RuntimeError"} ->
            /\ ReportError /\ UNCHANGED <<cont, direct, entry0, dirty, ierr, derr, lv, cv>>
       [] state = "Listing" ->
            \/ /\ ev' = "List" /\ ui' = "exec" /\ UNCHANGED <<state, cont, direct, entry0, dirty, colpos, ierr, derr, lv, cv>>
            \/ VmStep("Running")
       [] state = "Input" ->
            \/ /\ ev' = "Input" /\ ui' = "reply" /\ colpos' = FALSE
               /\ UNCHANGED <<state, cont, direct, entry0, dirty, ierr, derr, lv, cv>>
            \/ /\ ReportError /\ UNCHANGED <<cont, direct, entry0, dirty, ierr, derr, lv, cv>>   \* stack fault
       [] state = "InputRedo" ->
            /\ state' = "Input" /\ ev' = "Errors" /\ ui' = "exec"
            /\ UNCHANGED <<cont, direct, entry0, dirty, colpos, ierr, derr, lv, cv>>
       [] state \in {"Running", "InputRunning"} ->
            IF derr THEN /\ state' = "Stopped" /\ ev' = "Errors" /\ ui' = "exec"
                         /\ UNCHANGED <<cont, direct, entry0, dirty, colpos, ierr, derr, lv, cv>>
            ELSE VmStep(state)
       [] state = "Inkey" -> FALSE      \* the protocol enters a key first
  /\ drain' = (drain /\ ~(ui' = "line"))

Next == \/ \E c \in {"long", "empty", "numbered", "bare", "direct"} : EnterLine(c)
        \/ EnterReply \/ EnterKey \/ Interrupt \/ Snapshot \/ Release
        \/ \E r \in BOOLEAN : SetListing(r)
        \/ FileFailed \/ Execute

Spec == Init /\ [][Next]_vars /\ WF_vars(Execute)

(***************************** properties **********************************)
TypeOK == /\ state \in States /\ cont \in States
          /\ ui \in {"exec", "line", "reply", "key", "file"}
\* the terminal only ever calls enter() in a state that accepts it
ProtocolSafe == /\ ui = "line"  => state = "Stopped"
                /\ ui = "reply" => state = "Input"
                /\ ui = "key"   => state = "Inkey"
                /\ ui = "file"  => state = "Stopped"
\* program code never runs from a compile that is older than the listing
CacheCoherent == (~dirty) => cv = lv
\* after an interrupt, with no further input, the interpreter reaches the prompt and waits
Converges == drain ~> (ui = "line")
=============================================================================
