CONSTANT Limit = 200
CONSTANT Set = "C10"
CONSTANT NLines = 3
CONSTANT Fuel = 80
CONSTANT Size = 1
CONSTANT VFuel = 2500
INIT PInit
NEXT PNext
INVARIANT PRefines
INVARIANT PInside
CHECK_DEADLOCK FALSE
