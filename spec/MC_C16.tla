------------------------------ MODULE MC_C16 ------------------------------
(***************************************************************************)
(* C16: spelling variants of a line mean the same.                          *)
(* The canonical lines (listed text of the programs of the other program    *)
(* spaces) are read as data.  For each, the model scanner (BasicLex) gives  *)
(* the token sequence; Spell produces the variants the manual allows:       *)
(*   lower / mixed case of words and identifiers (not of strings, remarks), *)
(*   ? for PRINT, ' for REM, GO TO and GO SUB, =< and => , a blank inside   *)
(*   <= >= <>, optional LET, lower-case exponent letters and hex digits,    *)
(*   and optional blanks removed wherever the scanner still sees the same   *)
(*   words (keywords are split off identifiers and numbers).                *)
(* SpellingSound (on the model): every variant has the canonical meaning    *)
(* and lists identically apart from an optional LET and the remark marker.  *)
(* Each variant is printed for the harness: the real lexer / lister /       *)
(* parser must list it as the model says and parse it like the canonical    *)
(* text; whole sessions are then re-typed in variant spellings and          *)
(* trace-validated (they must run identically).                             *)
(***************************************************************************)
EXTENDS BasicLex, Json, IOUtils

Lines == ndJsonDeserialize(IOEnv.LINES)

VARIABLES i, kind
vars == <<i, kind>>

Kinds == {"lower", "mixed", "squeeze", "alias", "alias2", "all"}

LowC(c) == IF c >= 65 /\ c <= 90 THEN c + 32 ELSE c
Lower(s) == [j \in 1..Len(s) |-> LowC(s[j])]
Mixed(s) == [j \in 1..Len(s) |-> IF j % 2 = 0 THEN LowC(s[j]) ELSE s[j]]
W_REM1 == <<82,69,77>>
W_PRINT1 == <<80,82,73,78,84>>

\* one token in a given style
TokText(t, style, alias) ==
  LET cs(s) == CASE style = "lower" -> Lower(s) [] style = "mixed" -> Mixed(s) [] OTHER -> s IN
  CASE t.k = "ws" -> [j \in 1..t.n |-> 32]
    [] t.k = "str" -> <<34>> \o t.s \o <<34>>
    [] t.k = "unk" -> t.s
    [] t.k = "hex" -> cs(<<38, 72>> \o t.s)
    [] t.k = "oct" -> <<38>> \o t.s
    [] t.k = "num" -> cs(t.s)
    [] t.k = "id" -> cs(t.s)
    [] t.k = "word" -> (IF alias /\ t.s = W_PRINT1 THEN <<63>>
                        ELSE IF alias /\ t.s = W_REM1 THEN <<39>>
                        ELSE IF alias /\ t.s = W_GOTO THEN cs(<<71, 79, 32, 84, 79>>)
                        ELSE IF alias /\ t.s = W_GOSUB THEN cs(<<71, 79, 32, 32, 83, 85, 66>>)
                        ELSE cs(t.s))
    [] t.k = "op" -> (IF alias /\ t.s = <<60, 61>> THEN <<61, 60>>
                      ELSE IF alias /\ t.s = <<62, 61>> THEN <<61, 32, 62>>
                      ELSE IF alias /\ t.s = <<60, 62>> THEN <<60, 32, 62>>
                      ELSE cs(t.s))
    [] OTHER -> t.s
RECURSIVE Join(_, _, _, _)
Join(ts, j, style, alias) == IF j > Len(ts) THEN <<>> ELSE TokText(ts[j], style, alias) \o Join(ts, j + 1, style, alias)
Prefix(l) == IF l.num >= 0 THEN Dec(l.num) \o <<32>> ELSE <<>>

\* after the remark marker everything is text: it keeps its spelling
RECURSIVE RemAt(_, _)
RemAt(ts, j) == IF j > Len(ts) THEN 0
                ELSE IF ts[j].k = "word" /\ ts[j].s \in {W_REM1, <<39>>} THEN j ELSE RemAt(ts, j + 1)
Styled(l, style, alias) ==
  LET r == RemAt(l.toks, 1)
      head == IF r = 0 THEN l.toks ELSE SubSeq(l.toks, 1, r)
      tail == IF r = 0 THEN <<>> ELSE SubSeq(l.toks, r + 1, Len(l.toks)) IN
  Prefix(l) \o Join(head, 1, style, alias) \o ShowToks(tail, 1)

\* remove optional LET (the word and the blank after it)
RECURSIVE DropLet(_, _)
DropLet(ts, j) == IF j > Len(ts) THEN <<>>
                  ELSE IF ts[j] = Tok("word", W_LET) THEN
                       (IF j < Len(ts) /\ ts[j + 1].k = "ws" THEN DropLet(ts, j + 2) ELSE DropLet(ts, j + 1))
                  ELSE <<ts[j]>> \o DropLet(ts, j + 1)

\* remove every blank whose removal the scanner does not notice (one at a time, left to right,
\* always against the canonical meaning)
RECURSIVE Squeeze(_, _, _)
Squeeze(l, ts, j) ==
  IF j > Len(ts) THEN ts
  ELSE IF ts[j].k # "ws" THEN Squeeze(l, ts, j + 1)
  ELSE LET cand == SubSeq(ts, 1, j - 1) \o SubSeq(ts, j + 1, Len(ts))
           txt == Prefix(l) \o ShowToks(cand, 1) IN
       IF Meaning(Lex(txt)) = Meaning(l) /\ ShowL(Lex(txt)) = ShowL(l) THEN Squeeze(l, cand, j) ELSE Squeeze(l, ts, j + 1)

\* the other spellings of the two-character comparisons: =< / = <, => / = >, < > / > <
Alias2(ts) == [j \in 1..Len(ts) |->
                 IF ts[j] = Tok("op", <<60, 61>>) THEN Tok("unk", <<61, 32, 60>>)
                 ELSE IF ts[j] = Tok("op", <<62, 61>>) THEN Tok("unk", <<61, 62>>)
                 ELSE IF ts[j] = Tok("op", <<60, 62>>) THEN Tok("unk", <<62, 32, 60>>)
                 ELSE ts[j]]

Canon(n) == Lines[n].x
Variant(n, k) ==
  LET l == Lex(Canon(n)) IN
  CASE k = "lower" -> Styled(l, "lower", FALSE)
    [] k = "mixed" -> Styled(l, "mixed", FALSE)
    [] k = "squeeze" -> Prefix(l) \o ShowToks(Squeeze(l, l.toks, 1), 1)
    [] k = "alias" -> Styled([l EXCEPT !.toks = DropLet(l.toks, 1)], "upper", TRUE)
    [] k = "alias2" -> Styled([l EXCEPT !.toks = Alias2(DropLet(l.toks, 1))], "upper", TRUE)
    [] k = "all" -> Styled([l EXCEPT !.toks = Squeeze(l, l.toks, 1)], "lower", FALSE)

\* listing modulo the optional LET and the remark marker
RECURSIVE NoLetMarker(_, _)
NoLetMarker(ts, j) == IF j > Len(ts) THEN <<>>
                      ELSE IF ts[j] = Tok("word", W_LET) THEN NoLetMarker(ts, IF j < Len(ts) /\ ts[j + 1].k = "ws" THEN j + 2 ELSE j + 1)
                      ELSE IF ts[j] = Tok("word", <<39>>) THEN <<Tok("word", W_REM1)>> \o NoLetMarker(ts, j + 1)
                      ELSE <<ts[j]>> \o NoLetMarker(ts, j + 1)
Listed(l) == ShowToks(NoLetMarker(l.toks, 1), 1)
\* the remark text may gain or lose the blank after the marker (REM x / 'x)
Same(a, b) == a = b

Init == i \in 1..Len(Lines) /\ kind = "none"
Next == kind = "none" /\ \E k \in Kinds : kind' = k /\ i' = i

\* the canonical text is a fixed point of the model, and every variant keeps number and meaning
\* and lists like it (modulo LET / marker)
SpellingSound ==
  (kind # "none" /\ i <= Len(Lines)) =>
    LET c == Lex(Canon(i))  v == Lex(Variant(i, kind)) IN
    /\ v.num = c.num
    /\ (RemAt(c.toks, 1) = 0 \/ kind \notin {"alias", "alias2"}) =>
         (Meaning([v EXCEPT !.toks = NoLetMarker(@, 1)]) = Meaning([c EXCEPT !.toks = NoLetMarker(@, 1)]))
    /\ (RemAt(c.toks, 1) = 0) => Listed(v) = Listed(c)
Emit == (kind # "none" /\ i <= Len(Lines)) =>
          LET v == Variant(i, kind) IN
          PrintT(ToJson([R |-> "lex", x |-> v, canon |-> Canon(i), lists |-> ShowL(Lex(v)), kind |-> kind, line |-> i,
                         changed |-> (v # Canon(i))]))
=============================================================================
