CONSTANT Limit = 100
CONSTANT Depth = 2
CONSTANT Fuel = 40
CONSTANT Nums = {0, 2, 10, 65529}
CONSTANT Ends = {0, 2, 3, 10, 65529, 65530, 70000}
INIT Init
NEXT Next
INVARIANT DomainOK
PROPERTY ListExact
PROPERTY DeleteExact
PROPERTY LineExact
VIEW View
CHECK_DEADLOCK FALSE
