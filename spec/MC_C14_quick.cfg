CONSTANT Limit = 100
CONSTANT Fuel = 80
CONSTANT Uni <- UniA
CONSTANT Args <- ArgsQuick
INIT Init
NEXT Next
INVARIANT RenumExact
INVARIANT RenumSound
INVARIANT EmitSess
CHECK_DEADLOCK FALSE
