CONSTANTS
  Limit = 65535
  Names = {"Z1", "Z2", "Z3", "Z4"}
  Vals = {0, 5, 7}
  MaxBulk = 1
INIT TInit
NEXT TNext
INVARIANT PoolBounded
CHECK_DEADLOCK FALSE
