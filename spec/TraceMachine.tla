---------------------------- MODULE TraceMachine ----------------------------
(***************************************************************************)
(* Trace validation: sessions recorded from the real interpreter (one JSON  *)
(* object per session: the commands entered, and after each command the     *)
(* observed response and a read-only probe of the interpreter state) are    *)
(* checked to be behaviours of BasicMachine.  The program is data: the      *)
(* commands carry the ASTs the harness rendered into source text.           *)
(*                                                                          *)
(* One TLC state per abstract statement executed.  Interrupts are the only  *)
(* nondeterminism: the recorded trace says how much output preceded the     *)
(* interrupt, TLC chooses the statement boundary.                           *)
(***************************************************************************)
EXTENDS BasicMachine, Json, IOUtils

Rec == ndJsonDeserialize(IOEnv.TRACE)

VARIABLES ci, l, m, ph, nint, hi, loose, nst
tvars == <<ci, l, m, ph, nint, hi, loose, nst>>

\* the sessions are validated in independent chunks so that TLC's workers share the load
Chunk == IF "CHUNK" \in DOMAIN IOEnv THEN atoi(IOEnv.CHUNK) ELSE 100000000
ChunkStarts == {i \in 1..Len(Rec) : (i - 1) % Chunk = 0}

Case == Rec[ci]
Cur  == Case.cmds[l]

Range(f) == {f[i] : i \in DOMAIN f}
StepBound == 600000

\* ---- comparing an observed response item with a specified one
CodeOK(want, got) == IF want = AnyErr THEN got \notin {EInternal, EBreak} ELSE want = got
LineOK(want, got) == want = LineUnspec \/ want = got
\* where the specification fixes the character range of a diagnostic (c0 >= 0) it must be that
ColsOK(e, o) == ("c0" \in DOMAIN e /\ e.c0 >= 0) => (e.c0 = o.c0 /\ e.c1 = o.c1)
ErrOK(e, o) == CodeOK(e.code, o.code) /\ LineOK(e.ln, o.line) /\ ColsOK(e, o)
ErrsOK(spec, obs) ==   \* spec: set of [code, ln (, c0, c1)]; obs: sequence of records with code, line, c0, c1
  /\ \A e \in spec : \E i \in DOMAIN obs : ErrOK(e, obs[i])
  /\ \A i \in DOMAIN obs : \E e \in spec : ErrOK(e, obs[i])
ItemOK(a, b) ==
  /\ a.k = b.k
  /\ CASE a.k = "out" -> a.s = b.s
       [] a.k = "err" -> ErrsOK(a.errs, b.errs)
       \* (sessions that exist only as text were translated by the parser, which does not keep
       \* parentheses: their listed text is not compared)
       [] a.k = "list" -> /\ a.ln = b.ln /\ (Case.textual \/ a.text = b.s)
                          \* the underlined ranges are those of the line's diagnostics
                          /\ (\A rg \in a.cols : rg[1] >= 0) => a.cols = {<<b.cols[i][1], b.cols[i][2]>> : i \in DOMAIN b.cols}
       [] a.k = "input" -> a.s = b.s /\ a.caps = b.caps
       [] OTHER -> TRUE
RespSame(spec, obs) == Len(spec) = Len(obs) /\ \A i \in 1..Len(spec) : ItemOK(spec[i], obs[i])
\* optional output ("opt" items: text the manual leaves open) is either all there or all absent;
\* adjacent printed text is one item, as in the recorded response
RECURSIVE Merge(_, _, _)
Merge(r, i, acc) ==
  IF i > Len(r) THEN acc
  ELSE IF r[i].k = "out" /\ acc # <<>> /\ acc[Len(acc)].k = "out"
       THEN Merge(r, i + 1, [acc EXCEPT ![Len(acc)] = [k |-> "out", s |-> @.s \o r[i].s]])
       ELSE Merge(r, i + 1, Append(acc, r[i]))
WithOpt(r, keep) == Merge([i \in 1..Len(SelectSeq(r, LAMBDA x : keep \/ x.k # "opt")) |->
                             LET x == SelectSeq(r, LAMBDA y : keep \/ y.k # "opt")[i] IN
                             IF x.k = "opt" THEN [k |-> "out", s |-> x.s] ELSE x], 1, <<>>)
HasOpt(r) == \E i \in 1..Len(r) : r[i].k = "opt"
RespOK(spec, obs) == IF HasOpt(spec) THEN RespSame(WithOpt(spec, TRUE), obs) \/ RespSame(WithOpt(spec, FALSE), obs)
                     ELSE RespSame(spec, obs)

\* ---- comparing the probe with the abstract state (only at a prompt)
HadError(resp) == \E i \in 1..Len(resp) : resp[i].k = "err" /\ \E e \in resp[i].errs : e.code # EBreak
FrameOK(f, g) ==
  /\ f.k = g.k
  /\ (f.ln = g.ln \/ f.ln = Direct)
  /\ f.k = "for" => f.key = Key(g.l, g.id, g.sfx, <<>>) /\ f.lim = g.lim /\ f.step = g.step
\* lo (loose): an interrupt landed inside a statement of the running program and the program
\* has not been continued yet: the store and the frames are those of a statement in progress
\* (the abstract machine interrupts at statement boundaries), so only what a statement in
\* progress cannot disturb is compared; everything is compared again after CONT / RUN.
ProbeOK(mm, pr, lo) ==
  /\ lo \/ {<<k, mm.vars[k]>> : k \in DOMAIN mm.vars}
             = {<<Key(x.l, x.id, x.sfx, x.sub), x.v>> : x \in Range(pr.vars)}
  /\ lo \/ {<<a, mm.dims[a]>> : a \in DOMAIN mm.dims} = {<<ArrId(x.id, x.sfx), x.b>> : x \in Range(pr.dims)}
  /\ lo \/ \A c \in Letters : mm.deft[c] = pr.deft[LetterIdx[c]]
  /\ lo \/ DOMAIN mm.fns = {x.id : x \in Range(pr.fns)}
  /\ lo \/ mm.tron = pr.tron
  /\ mm.mode = "ready" => mm.col = 0 /\ pr.col = 0
  /\ (~HadError(mm.resp) /\ ~lo) =>
       /\ mm.dptr = pr.dptr
       /\ (~mm.ctlx /\ ~mm.stale) =>
            /\ Len(mm.ctl) = Len(pr.frames) /\ \A i \in 1..Len(mm.ctl) : FrameOK(mm.ctl[i], pr.frames[i])
            \* expression temporaries: none between statements; an INPUT statement that is waiting
            \* (or was interrupted while waiting and can be continued) holds its prompt and counts
            /\ pr.junk \in (IF mm.mode = "input" THEN {3}
                           ELSE IF mm.cont # NoCont /\ mm.cont.ln # PastEnd /\ InList(CodeOf(mm, mm.cont.ln), mm.cont.path)
                                   /\ StmtAt(CodeOf(mm, mm.cont.ln), mm.cont.path).k = "input" THEN {0, 3}
                           ELSE {0})
  /\ (~HadError(mm.resp) /\ mm.mode = "ready" /\ ~mm.contx) => ((mm.cont # NoCont) = pr.cancont)

LastOut(r) == IF r # <<>> /\ r[Len(r)].k = "out" THEN r[Len(r)].s ELSE <<>>
\* the printed text an interrupt can have been preceded by (optional output: with or without it)
\* (the line break that closes an optional trace printed at column 0 comes with whatever is printed next)
DropNl(t) == IF t # <<>> /\ t[Len(t)] = 10 THEN SubSeq(t, 1, Len(t) - 1) ELSE t
OutSoFars(mm) == IF HasOpt(mm.resp)
                 THEN {LastOut(WithOpt(mm.resp, TRUE)), DropNl(LastOut(WithOpt(mm.resp, TRUE))), LastOut(WithOpt(mm.resp, FALSE))}
                 ELSE {LastOut(mm.resp)}
NOuts(mm) == Cardinality({i \in 1..Len(mm.resp) : mm.resp[i].k = "out"})

Init == /\ ci \in ChunkStarts /\ hi = (IF ci + Chunk - 1 < Len(Rec) THEN ci + Chunk - 1 ELSE Len(Rec))
        /\ l = 1 /\ m = InitM /\ ph = "feed" /\ nint = 0 /\ loose = FALSE /\ nst = 0

\* commands after which the interpreter is at a statement boundary again
Resyncs(c) == \/ c.k = "line"
              \/ c.k = "direct" /\ \E i \in 1..Len(c.stmts) : c.stmts[i].k \in {"cont", "run", "clear", "new"}
Feed == /\ ph = "feed" /\ ci <= hi /\ l <= Len(Case.cmds)
        /\ m' = Apply(m, Cur.cmd) /\ ph' = "run" /\ nint' = 0
        /\ loose' = (loose /\ ~Resyncs(Cur.cmd))
        /\ nst' = 0 /\ UNCHANGED <<ci, l, hi>>

\* sessions marked "big" (tens of thousands of statements: the memory-pool limits) are run
\* 500 statements per TLC state
RunBig == /\ ph = "run" /\ m.mode = "run" /\ Case.big
          /\ nst < StepBound /\ nst' = nst + 500
          /\ m' = RunSteps(m, 500) /\ UNCHANGED <<ci, l, ph, nint, hi, loose>>
Run  == /\ ph = "run" /\ m.mode = "run" /\ ~Case.big
        /\ nst < StepBound /\ nst' = nst + 1
        /\ m' = Step(m) /\ UNCHANGED <<ci, l, ph, nint, hi, loose>>

\* The interrupt landed between two opcodes of the statement about to be executed (or exactly
\* before it): the line is that statement's line, and every variable holds either its value
\* before the statement or its value after it.
ValAt(mm, k) == IF k \in DOMAIN mm.vars THEN <<mm.vars[k]>> ELSE <<>>
IntrPin(mm, pr) ==
  LET p == Resolve(mm, mm.pc)
      nx == Step(mm)
      obs == [k \in {Key(x.l, x.id, x.sfx, x.sub) : x \in Range(pr.vars)} |->
                (CHOOSE x \in Range(pr.vars) : Key(x.l, x.id, x.sfx, x.sub) = k).v]
  IN  \* (the interpreter may still be in the trailing opcodes of the statement just finished,
      \* e.g. the jump over an ELSE part: then the unresolved position is on that line)
      \* (while a user function is being evaluated the interpreter is in the DEF's line)
      /\ (pr.line >= 0 /\ p.ln # PastEnd) =>
            \/ p.ln = pr.line \/ mm.pc.ln = pr.line
            \/ (pr.line \in DOMAIN mm.lst /\ \E i \in 1..Len(mm.lst[pr.line]) : mm.lst[pr.line][i].k = "def")
      /\ \A k \in DOMAIN obs \cup DOMAIN mm.vars \cup DOMAIN nx.vars :
            (IF k \in DOMAIN obs THEN <<obs[k]>> ELSE <<>>) \in {ValAt(mm, k), ValAt(nx, k)}

\* an interrupt delivered while the command was executing: after exactly the recorded output
Intr == /\ ph = "run" /\ m.mode = "run" /\ nint < Cur.ints
        /\ Cur.intpre \in OutSoFars(m)
        /\ IntrPin(m, Cur.intprobe)
        /\ m' = Interrupt(m) /\ nint' = nint + 1
        /\ loose' = (loose \/ m'.cont # NoCont)
        /\ UNCHANGED <<ci, l, ph, hi, nst>>

AtWait == ph = "run" /\ m.mode \in {"ready", "input"}
\* every compile-time diagnostic names an existing line (or the direct line) and a character
\* range inside that line's listed text
DiagOK(mm, spec, obs) ==
  \A i \in 1..Len(spec) :
    (spec[i].k = "err" /\ i <= Len(obs) /\ obs[i].k = "err" /\ \E e \in spec[i].errs : "c0" \in DOMAIN e) =>
       \A j \in DOMAIN obs[i].errs :
         LET o == obs[i].errs[j] IN
         /\ o.c0 >= 0 /\ o.c0 <= o.c1
         /\ IF o.line < 0 THEN o.c1 <= Len(ShowStmts(mm.dirsrc, 1))
            ELSE o.line \in DOMAIN mm.src /\ o.c1 <= Len(ShowLine(o.line, mm.src[o.line]))
Good  == /\ nint = Cur.ints /\ RespOK(m.resp, Cur.resp) /\ ProbeOK(m, Cur.probe, loose)
         /\ DiagOK(m, m.resp, Cur.resp)

Match == /\ AtWait /\ Good
         /\ l' = l + 1 /\ ph' = "feed" /\ UNCHANGED <<ci, m, nint, hi, loose, nst>>

NextCase == /\ ph = "feed" /\ ci <= hi /\ l > Len(Case.cmds)
            /\ PrintT(ToJson([T |-> "ACCEPT", id |-> Case.id]))
            /\ ci' = ci + 1 /\ l' = 1 /\ m' = InitM /\ ph' = "feed" /\ nint' = 0 /\ loose' = FALSE /\ nst' = 0 /\ UNCHANGED hi

\* this branch cannot explain the trace: say why, and go on with the next session
Stuck == /\ AtWait /\ ~Good
         /\ PrintT(ToJson([T |-> "STUCK", id |-> Case.id, l |-> l, resp |-> m.resp,
                      respok |-> RespOK(m.resp, Cur.resp), nint |-> nint, loose |-> loose,
                      vars |-> {<<k, m.vars[k]>> : k \in DOMAIN m.vars},
                      ctl |-> m.ctl, dims |-> {<<a, m.dims[a]>> : a \in DOMAIN m.dims},
                      dptr |-> m.dptr, cont |-> m.cont, contx |-> m.contx, mode |-> m.mode,
                      col |-> m.col, tron |-> m.tron, fns |-> DOMAIN m.fns]))
         /\ ci' = ci + 1 /\ l' = 1 /\ m' = InitM /\ ph' = "feed" /\ nint' = 0 /\ loose' = FALSE /\ nst' = 0 /\ UNCHANGED hi

\* the session left the fragment the model defines: discard it (counted, never failed)
Discard == /\ ph = "run" /\ m.mode = "oom"
           /\ PrintT(ToJson([T |-> "SKIP", id |-> Case.id, l |-> l, why |-> m.why]))
           /\ ci' = ci + 1 /\ l' = 1 /\ m' = InitM /\ ph' = "feed" /\ nint' = 0 /\ loose' = FALSE /\ nst' = 0 /\ UNCHANGED hi

\* the specified run of this command does not end within the bound (the k counter also keeps a
\* cycling run from being mistaken for a finished search): if the interpreter did not finish
\* within its opcode budget either, the session is set aside, else the trace is rejected
Loops == /\ ph = "run" /\ m.mode = "run" /\ nst >= StepBound
         /\ PrintT(ToJson([T |-> (IF Cur.wait = "budget" THEN "SKIP" ELSE "STUCK"), id |-> Case.id, l |-> l,
                      why |-> "the specified run does not terminate", resp |-> m.resp, respok |-> FALSE, nint |-> nint]))
         /\ ci' = ci + 1 /\ l' = 1 /\ m' = InitM /\ ph' = "feed" /\ nint' = 0 /\ loose' = FALSE /\ nst' = 0 /\ UNCHANGED hi

\* fingerprint only what is not a function of the commands consumed so far (the listing and its
\* analysis are determined by ci and l)
View == <<ci, l, ph, nint, hi, loose, nst, m.mode, m.pc, m.vars, m.dims, m.deft, m.fns, m.ctl, m.dptr, m.col,
          m.tron, m.ltr, m.cont, m.contx, m.ctlx, m.stale, m.inp, m.resp, m.dgen, m.flds, m.lcur, m.contl>>

Next == Feed \/ Run \/ RunBig \/ Intr \/ Match \/ NextCase \/ Stuck \/ Discard \/ Loops
Spec == Init /\ [][Next]_tvars

\* ---- invariants of the abstract machine, evaluated at every state of every trace
VarsTyped == \A k \in DOMAIN m.vars :
               /\ m.vars[k].t = TypeOfName(k[1], k[3], m.deft)
               /\ ~IsDefault(m.vars[k])
InBounds  == \A k \in DOMAIN m.vars : k[4] # <<>> =>
               /\ ArrId(k[2], k[3]) \in DOMAIN m.dims
               /\ Len(m.dims[ArrId(k[2], k[3])]) = Len(k[4])
               /\ \A i \in 1..Len(k[4]) : k[4][i] >= 0 /\ k[4][i] <= m.dims[ArrId(k[2], k[3])][i]
PoolBounded == m.nslots <= Limit /\ m.nslots = Slots(m.ctl) /\ Cardinality(DOMAIN m.vars) <= Limit + 1
DataInRange == m.dptr >= 0 /\ m.dptr <= Len(m.data)
ColIsTrue == m.col >= 0
=============================================================================
