------------------------------ MODULE BasicVM ------------------------------
(***************************************************************************)
(* The implementation-level model of 64K BASIC: the code generator          *)
(* (src/mach/codegen.rs), the linkable object with its symbol table          *)
(* (src/mach/link.rs), program memory (src/mach/program.rs) and the stack    *)
(* machine with its shell states (src/mach/runtime.rs), transcribed action   *)
(* by action.  BasicMachine is what the manual promises; this module is what *)
(* the interpreter does.  MC_VM checks with TLC that, on bounded program      *)
(* spaces, every behaviour of this machine is a behaviour of BasicMachine     *)
(* (same output, same errors, same variables, same number of stack slots at  *)
(* every prompt), and that the stack discipline holds at every opcode.  The  *)
(* harness binds this module to the code from the other side: the opcodes    *)
(* the real compiler emits for a program are compared with Compile(..), and  *)
(* the real (pc, stack depth) after every single opcode with the model's.    *)
(*                                                                          *)
(* Addresses are 0-based as in the implementation: address a is ops[a + 1].  *)
(***************************************************************************)
EXTENDS BasicMachine

\* ---------------------------------------------------------------- opcodes
Op(o, a) == [o |-> o, a |-> a]
Lit(val) == Op("LIT", val)
NameOf(node) == [l |-> node.l, id |-> node.id, sfx |-> node.sfx]
NoName == [l |-> "", id |-> "", sfx |-> ""]
RetV(a)  == V("R", a, 0, <<>>, TRUE)          \* Val::Return(address)
NextV(a) == V("N", a, 0, <<>>, TRUE)          \* Val::Next(address)
NameV(nm) == V("nm", 0, 0, nm, TRUE)          \* Val::String(name): FOR's variable, DEFtype's letters
IsMark(v) == v.t \in {"R", "N"}

FnPut(f, k, val) == [x \in DOMAIN f \cup {k} |-> IF x = k THEN val ELSE f[x]]

\* ---------------------------------------------------------------- Link
\* cur: the symbol counter (local symbols are negative); syms: symbol -> <<op address, data
\* address>>; unl: op address -> symbol it must be linked to; whiles: the WHILE / WEND
\* occurrences in source order
EmptyL == [cur |-> 0, ops |-> <<>>, data |-> <<>>, syms |-> EmptyFn, unl |-> EmptyFn, whiles |-> <<>>]
LPush(L, op) == [L EXCEPT !.ops = Append(@, op)]
LPushAll(L, ops) == [L EXCEPT !.ops = @ \o ops]
LUnl(L, sym, op) == [L EXCEPT !.unl = FnPut(@, Len(L.ops), sym), !.ops = Append(@, op)]
LSym(L, sym) == [L EXCEPT !.syms = FnPut(@, sym, <<Len(L.ops), Len(L.data)>>)]
LNew(L) == [L EXCEPT !.cur = @ - 1]            \* next_symbol(): the new symbol is LNew(L).cur
Shift(sym, off) == IF sym < 0 THEN sym + off ELSE sym
\* Link::append: addresses of the appended object move up, its local symbols move down
LApp(L, M) ==
  LET oo == Len(L.ops)  dd == Len(L.data)  so == L.cur
      msyms == {Shift(x, so) : x \in DOMAIN M.syms} IN
  [cur  |-> L.cur + M.cur,
   ops  |-> L.ops \o M.ops,
   data |-> L.data \o M.data,
   syms |-> [s \in DOMAIN L.syms \cup msyms |->
               IF s \in msyms
               THEN LET x == CHOOSE x \in DOMAIN M.syms : Shift(x, so) = s IN <<M.syms[x][1] + oo, M.syms[x][2] + dd>>
               ELSE L.syms[s]],
   unl  |-> [a \in DOMAIN L.unl \cup {x + oo : x \in DOMAIN M.unl} |->
               IF a >= oo /\ (a - oo) \in DOMAIN M.unl THEN Shift(M.unl[a - oo], so) ELSE L.unl[a]],
   whiles |-> L.whiles \o [i \in 1..Len(M.whiles) |->
                             [M.whiles[i] EXCEPT !.addr = @ + oo, !.sym = @ + so]]]
RECURSIVE LAppAll(_, _, _)
LAppAll(L, Ms, i) == IF i > Len(Ms) THEN L ELSE LAppAll(LApp(L, Ms[i]), Ms, i + 1)

\* ---------------------------------------------------------------- expressions
BinOpc == [op \in BinOps |->
  CASE op = "add" -> "ADD" [] op = "sub" -> "SUB" [] op = "mul" -> "MUL" [] op = "div" -> "DIV"
    [] op = "idiv" -> "DIVINT" [] op = "mod" -> "MOD" [] op = "pow" -> "POW"
    [] op = "eq" -> "EQ" [] op = "ne" -> "NOTEQ" [] op = "lt" -> "LT" [] op = "le" -> "LTEQ"
    [] op = "gt" -> "GT" [] op = "ge" -> "GTEQ"
    [] op = "and" -> "AND" [] op = "or" -> "OR" [] op = "xor" -> "XOR" [] op = "imp" -> "IMP" [] op = "eqv" -> "EQV"]
OpcBin == [o \in {BinOpc[op] : op \in BinOps} |-> CHOOSE op \in BinOps : BinOpc[op] = o]
\* built-ins with an optional argument take their argument count on the stack
VarArity == {"INSTR", "MID$", "POS", "RND"}

RECURSIVE GE(_), GEList(_, _)
GE(e) ==
  CASE e.k = "lit" -> <<Lit(e.v)>>
    [] e.k = "par" -> GE(e.a)
    [] e.k = "var" -> <<Op("PUSH", NameOf(e))>>
    [] e.k = "arr" -> GEList(e.sub, 1) \o <<Lit(MkI(Len(e.sub))), Op("PUSHARR", NameOf(e))>>
    [] e.k = "un"  -> GE(e.a) \o (IF e.op = "neg" THEN <<Op("NEG", 0)>> ELSE IF e.op = "not" THEN <<Op("NOT", 0)>> ELSE <<>>)
    [] e.k = "bin" -> GE(e.a) \o GE(e.b) \o <<Op(BinOpc[e.op], 0)>>
    [] e.k = "call" -> GEList(e.args, 1) \o (IF e.f \in VarArity THEN <<Lit(MkI(Len(e.args)))>> ELSE <<>>) \o <<Op("CALL", e.f)>>
    [] e.k = "pos" -> <<Lit(MkI(0)), Lit(MkI(1)), Op("CALL", "POS")>>
    [] e.k = "fn"  -> GEList(e.args, 1) \o <<Lit(MkI(Len(e.args))), Op("FN", e.id)>>
GEList(es, i) == IF i > Len(es) THEN <<>> ELSE GE(es[i]) \o GEList(es, i + 1)

\* VarItem::push_as_pop
PopCode(node) == IF node.k = "arr"
                 THEN GEList(node.sub, 1) \o <<Lit(MkI(Len(node.sub))), Op("POPARR", NameOf(node))>>
                 ELSE <<Op("POP", NameOf(node))>>

LnV(n) == MkF("S", n, 0)                       \* a line number as a value (Val::Single)

\* ---------------------------------------------------------------- statements
RECURSIVE GS(_), GSList(_, _), GPrint(_, _, _), GInputVars(_, _), GReadVars(_, _), GDimVars(_, _), GGotos(_, _, _)
GSList(ss, i) == IF i > Len(ss) THEN <<>> ELSE <<GS(ss[i])>> \o GSList(ss, i + 1)
\* PRINT: one Print per item; a comma is TAB(-14); a final expression (or nothing at all) ends the line
GPrint(items, i, nl) ==
  IF i > Len(items) THEN (IF nl THEN <<Lit(MkStr(<<10>>)), Op("PRINT", 0)>> ELSE <<>>)
  ELSE IF "sep" \in DOMAIN items[i]
       THEN (IF items[i].sep = "," THEN <<Lit(MkI(-14)), Op("CALL", "TAB"), Op("PRINT", 0)>> ELSE <<>>)
            \o GPrint(items, i + 1, FALSE)
       ELSE GE(items[i].e) \o <<Op("PRINT", 0)>> \o GPrint(items, i + 1, TRUE)
GInputVars(vs, i) == IF i > Len(vs) THEN <<>>
                     ELSE <<Op("INPUT", NameOf(vs[i]))>> \o PopCode(vs[i]) \o GInputVars(vs, i + 1)
GReadVars(vs, i) == IF i > Len(vs) THEN <<>> ELSE <<Op("READ", 0)>> \o PopCode(vs[i]) \o GReadVars(vs, i + 1)
GDimVars(vs, i) == IF i > Len(vs) THEN <<>>
                   ELSE GEList(vs[i].sub, 1) \o <<Lit(MkI(Len(vs[i].sub))), Op("DIMARR", NameOf(vs[i]))>> \o GDimVars(vs, i + 1)
GGotos(L, ns, i) == IF i > Len(ns) THEN L ELSE GGotos(LUnl(L, ns[i], Op("JUMP", 0)), ns, i + 1)

GS(s) ==
  CASE s.k = "rem" -> EmptyL
    [] s.k = "data" -> [EmptyL EXCEPT !.data = s.vals]
    [] s.k = "let" -> LPushAll(EmptyL, GE(s.e) \o PopCode(s.v))
    [] s.k = "print" -> LPushAll(EmptyL, GPrint(s.items, 1, TRUE))
    [] s.k = "goto" -> LUnl(EmptyL, s.n, Op("JUMP", 0))
    [] s.k = "gosub" ->
         LET L1 == LNew(EmptyL)
             L2 == LUnl(L1, L1.cur, Lit(RetV(0)))
             L3 == LUnl(L2, s.n, Op("JUMP", 0)) IN
         LSym(L3, L1.cur)
    [] s.k = "return" -> LPush(EmptyL, Op("RETURN", 0))
    [] s.k \in {"ongoto", "ongosub"} ->
         \* [Return(after)] count selector ON Jump.. [RETURN] after:  (ON skips selector - 1 jumps,
         \* or all of them when the selector is out of range)
         LET sub == s.k = "ongosub"
             L1 == LNew(EmptyL)
             L2 == IF sub THEN LUnl(L1, L1.cur, Lit(RetV(0))) ELSE L1
             L3 == LPushAll(L2, <<Lit(MkI(Len(s.ns)))>> \o GE(s.e) \o <<Op("ON", 0)>>)
             L4 == GGotos(L3, s.ns, 1) IN
         IF sub THEN LSym(LPush(L4, Op("RETURN", 0)), L1.cur) ELSE L4
    [] s.k = "if" ->
         LET L0 == LPushAll(EmptyL, GE(s.c))
             L1 == LNew(L0)   elseSym == L1.cur
             L2 == LUnl(L1, elseSym, Op("IFNOT", 0))
             L3 == LAppAll(L2, GSList(s.th, 1), 1) IN
         IF s.el = <<>> THEN LSym(L3, elseSym)
         ELSE LET L4 == LNew(L3)   finSym == L4.cur
                  L5 == LUnl(L4, finSym, Op("JUMP", 0))
                  L6 == LSym(L5, elseSym)
                  L7 == LAppAll(L6, GSList(s.el, 1), 1) IN
              LSym(L7, finSym)
    [] s.k = "for" ->
         \* from -> variable; limit, step, name, Next(body) stay on the stack while the loop runs
         LET L0 == LPushAll(EmptyL, GE(s.a) \o <<Op("POP", NameOf(s.v))>> \o GE(s.b) \o GE(s.c) \o <<Lit(NameV(NameOf(s.v)))>>)
             L1 == LNew(L0)
             L2 == LUnl(L1, L1.cur, Lit(NextV(0))) IN
         LSym(L2, L1.cur)
    [] s.k = "next" ->
         LPushAll(EmptyL, IF s.vs = <<>> THEN <<Op("NEXT", NoName)>>
                          ELSE [j \in 1..Len(s.vs) |-> Op("NEXT", NameOf(s.vs[j]))])
    [] s.k = "while" ->
         LET L1 == LNew(EmptyL)
             L2 == LPushAll(LSym(L1, L1.cur), GE(s.c))
             L3 == [L2 EXCEPT !.whiles = Append(@, [kind |-> TRUE, addr |-> Len(L2.ops), sym |-> L1.cur])] IN
         LPush(L3, Op("IFNOT", 0))
    [] s.k = "wend" ->
         LET L1 == LNew(EmptyL)
             L2 == [L1 EXCEPT !.whiles = Append(@, [kind |-> FALSE, addr |-> 0, sym |-> L1.cur])] IN
         LSym(LPush(L2, Op("JUMP", 0)), L1.cur)
    [] s.k = "end" -> LPush(EmptyL, Op("END", 0))
    [] s.k = "stop" -> LPush(EmptyL, Op("STOP", 0))
    [] s.k = "read" -> LPushAll(EmptyL, GReadVars(s.vs, 1))
    [] s.k = "restore" -> IF s.n >= 0 THEN LUnl(EmptyL, s.n, Op("RESTORE", 0)) ELSE LPush(EmptyL, Op("RESTORE", 0))
    [] s.k = "dim" -> LPushAll(EmptyL, GDimVars(s.vs, 1))
    [] s.k = "erase" -> LPushAll(EmptyL, [j \in 1..Len(s.vs) |-> Op("ERASEARR", NameOf(s.vs[j]))])
    [] s.k = "def" ->
         \* count DEF Jump(skip) Pop(p1) .. Pop(pn) body RETURN skip:
         LET L0 == LPushAll(EmptyL, <<Lit(MkI(Len(s.ps))), Op("DEF", s.id)>>)
             L1 == LNew(L0)
             L2 == LUnl(L1, L1.cur, Op("JUMP", 0))
             L3 == LPushAll(L2, [j \in 1..Len(s.ps) |-> Op("POP", NameOf(s.ps[j]))] \o GE(s.e) \o <<Op("RETURN", 0)>>) IN
         LSym(L3, L1.cur)
    [] s.k = "deftype" ->
         LPushAll(EmptyL, <<Lit(NameV([l |-> s.a, id |-> s.a, sfx |-> ""])), Lit(NameV([l |-> s.b, id |-> s.b, sfx |-> ""])),
                            Op("DEFTYPE", s.t)>>)
    [] s.k = "swap" ->
         \* (the generator takes the second variable first)
         LPushAll(EmptyL, GE(s.v2) \o GE(s.v1) \o <<Op("SWAP", 0)>> \o PopCode(s.v2) \o PopCode(s.v1))
    [] s.k = "mid" -> LPushAll(EmptyL, GE(s.v) \o GE(s.e) \o GE(s.n) \o GE(s.p) \o <<Op("LETMID", 0)>> \o PopCode(s.v))
    [] s.k = "input" ->
         LPushAll(EmptyL, <<Lit(MkStr(s.prompt)), Lit(MkI(IF s.caps THEN -1 ELSE 0)), Lit(MkI(Len(s.vs)))>>
                          \o GInputVars(s.vs, 1) \o <<Op("INPUT", NoName)>>)
    [] s.k = "clear" -> LPush(EmptyL, Op("CLEAR", 0))
    [] s.k = "run" -> LET L1 == LPush(EmptyL, Op("CLEAR", 0)) IN
                      IF s.n >= 0 THEN LUnl(L1, s.n, Op("JUMP", 0)) ELSE LPush(L1, Op("JUMP", 0))
    [] s.k = "cont" -> LPush(EmptyL, Op("CONT", 0))
    [] s.k = "tron" -> LPush(EmptyL, Op("TRON", 0))
    [] s.k = "troff" -> LPush(EmptyL, Op("TROFF", 0))
    [] s.k = "new" -> LPush(EmptyL, Op("NEW", 0))
    [] s.k = "cls" -> LPush(EmptyL, Op("CLS", 0))
    [] s.k = "list" -> LPushAll(EmptyL, <<Lit(LnV(s.a)), Lit(LnV(s.b)), Op("LIST", 0)>>)
    [] s.k = "delete" -> LPushAll(EmptyL, <<Lit(LnV(s.a)), Lit(LnV(s.b)), Op("DELETE", 0)>>)

\* the statement kinds this module compiles (RENUM and unparsable lines are left to BasicMachine)
RECURSIVE Compilable(_)
Compilable(ss) == \A i \in 1..Len(ss) :
   /\ ss[i].k \notin {"renum", "bad"}
   /\ ss[i].k = "if" => Compilable(ss[i].th) /\ Compilable(ss[i].el)

\* WEND's own address is only known once it is appended: Link::push_wend records ops.len() --
\* 0 in the statement's own object, so LApp's relocation yields the right address

\* ---------------------------------------------------------------- linking (Link::link)
\* line_number_for: the greatest line symbol at or below the address; the direct line's
\* marker (MaxLine + 7 = 65536) yields "no line"
DirectSym == 65536
LineFor(L, addr) ==
  LET c == {s \in DOMAIN L.syms : s >= 0 /\ L.syms[s][1] <= addr} IN
  IF c = {} THEN -1
  ELSE LET s == CHOOSE s \in c : \A y \in c : y <= s IN IF s = DirectSym THEN -1 ELSE s

RECURSIVE LinkWhiles(_, _, _, _)
\* pair WHILEs and WENDs by source position: [unl, errs]
LinkWhiles(L, i, stack, acc) ==
  IF i > Len(L.whiles)
  THEN [acc EXCEPT !.errs = @ \cup {[code |-> EWhileNoWend, ln |-> LineFor(L, stack[j].addr)] : j \in 1..Len(stack)}]
  ELSE LET w == L.whiles[i] IN
       IF w.kind THEN LinkWhiles(L, i + 1, Append(stack, w), acc)
       ELSE IF stack = <<>>
            THEN LinkWhiles(L, i + 1, stack, [acc EXCEPT !.errs = @ \cup {[code |-> EWendNoWhile, ln |-> LineFor(L, w.addr)]}])
            ELSE LET wh == stack[Len(stack)] IN
                 LinkWhiles(L, i + 1, SubSeq(stack, 1, Len(stack) - 1),
                            [acc EXCEPT !.unl = FnPut(FnPut(@, wh.addr, w.sym), w.addr, wh.sym)])

Patch(op, dest) ==
  CASE op.o \in {"IFNOT", "JUMP"} -> Op(op.o, dest[1])
    [] op.o = "LIT" /\ op.a.t = "R" -> Lit(RetV(dest[1]))
    [] op.o = "LIT" /\ op.a.t = "N" -> Lit(NextV(dest[1]))
    [] op.o = "RESTORE" -> Op("RESTORE", dest[2])
    [] OTHER -> op
\* resolve every recorded reference; a missing line is UNDEFINED LINE in the line of the reference
LinkL(L) ==
  LET w == LinkWhiles(L, 1, <<>>, [unl |-> L.unl, errs |-> {}])
      missing == {a \in DOMAIN w.unl : w.unl[a] \notin DOMAIN L.syms}
      ops2 == [i \in 1..Len(L.ops) |->
                 IF (i - 1) \in DOMAIN w.unl /\ (i - 1) \notin missing THEN Patch(L.ops[i], L.syms[w.unl[i - 1]]) ELSE L.ops[i]] IN
  [link |-> [L EXCEPT !.ops = ops2, !.unl = EmptyFn, !.whiles = <<>>, !.cur = 0,
                      !.syms = [s \in {x \in DOMAIN L.syms : x >= 0} |-> L.syms[s]]],
   errs |-> w.errs \cup {[code |-> IF w.unl[a] >= 0 THEN EUndefLine ELSE EInternal, ln |-> LineFor(L, a)] : a \in missing}]

\* ---------------------------------------------------------------- program memory (Program)
\* P = [link, errs (of the unit being compiled), ierr (the program's), daddr (where direct code starts)]
EmptyP == [link |-> EmptyL, errs |-> {}, ierr |-> {}, daddr |-> 0, dset |-> FALSE]

\* Program::link
PLink(P) ==
  LET L0 == P.link
      atEnd == \E s \in DOMAIN L0.syms : L0.syms[s][1] = Len(L0.ops)
      L1 == IF L0.ops # <<>> /\ L0.ops[Len(L0.ops)].o = "END" /\ ~atEnd THEN L0 ELSE LPush(L0, Op("END", 0))
      r == LinkL(L1)
      errs == IF P.errs = {} THEN r.errs ELSE P.errs IN
  IF P.daddr = 0
  THEN [P EXCEPT !.link = [r.link EXCEPT !.syms = FnPut(@, DirectSym, <<Len(r.link.ops), Len(r.link.data)>>)],
                 !.ierr = errs, !.errs = {}, !.daddr = Len(r.link.ops), !.dset = TRUE]
  ELSE [P EXCEPT !.link = r.link, !.errs = errs]

RECURSIVE PAddStmts(_, _, _, _)
\* Visitor::accept: the statements' objects are appended in order; DATA in a direct line is refused
PAddStmts(P, ss, i, ln) ==
  IF i > Len(ss) THEN P
  ELSE LET M == GS(ss[i]) IN
       IF P.dset /\ M.data # <<>> THEN [P EXCEPT !.errs = @ \cup {[code |-> EIllegalDirect, ln |-> ln]}]
       ELSE PAddStmts([P EXCEPT !.link = LApp(@, M)], ss, i + 1, ln)

RECURSIVE PAddLines(_, _, _)
PAddLines(P, lst, ln) ==
  IF ln = PastEnd THEN P
  ELSE PAddLines(PAddStmts([P EXCEPT !.link = LSym(@, ln)], lst[ln], 1, ln), lst, NextLine(lst, ln))

\* Program::codegen(listing) after Program::clear
CompileProgram(lst) == PAddLines(EmptyP, lst, FirstLine(lst))
\* Program::codegen(direct line) then Program::link (Runtime::enter_direct)
CompileDirect(P0, stmts) ==
  LET P1 == PLink(P0)                                            \* "self.link()" when a direct line arrives
      P2 == [P1 EXCEPT !.link.ops = SubSeq(@, 1, P1.daddr), !.errs = {}]
      P3 == PAddStmts(P2, stmts, 1, -1)
      P4 == [P3 EXCEPT !.link = LPush(@, Op("END", 0))] IN
  PLink(P4)

\* ---------------------------------------------------------------- the machine (Runtime)
InitV == [ lst |-> EmptyFn, dirty |-> FALSE, P |-> EmptyP,
           ierr |-> {}, derr |-> {},                 \* Listing::indirect_errors / direct_errors
           pc |-> 0, tr |-> -1, tron |-> FALSE, entry |-> 0,
           stk |-> <<>>, vars |-> EmptyFn, dims |-> EmptyFn, deft |-> DeftInit, fns |-> EmptyFn,
           st |-> "Stopped", sp |-> 0,               \* state and its payload (the error / the LIST range)
           ct |-> "Stopped", cp |-> 0,               \* cont and its payload
           contpc |-> 0, col |-> 0, dpos |-> 0,
           resp |-> <<>>, wait |-> "stopped", why |-> "" ]

VOom(v, why) == [v EXCEPT !.st = "oom", !.wait = "oom", !.why = why]

\* ---- stack
VPush(stk, val) == Append(stk, val)
Top(stk) == stk[Len(stk)]
PopN(stk, n) == SubSeq(stk, 1, Len(stk) - n)
LastN(stk, n) == SubSeq(stk, Len(stk) - n + 1, Len(stk))

\* one opcode: result [v, e] -- e = NoE, or the error value the opcode raised, "stopped" in ev when
\* the opcode returned Event::Stopped
NoE == MkI(0)
Res(v, e) == [v |-> v, e |-> e, ev |-> ""]
Ok(v) == Res(v, NoE)
PushChk(v, val) == LET s2 == VPush(v.stk, val) IN
                   IF Len(s2) > Limit THEN Res([v EXCEPT !.stk = s2], Err(EOutOfMemory)) ELSE Ok([v EXCEPT !.stk = s2])
\* replace the top n values by val
Repl(v, n, val) == IF IsBad(val) THEN Res([v EXCEPT !.stk = PopN(@, n)], val)
                   ELSE PushChk([v EXCEPT !.stk = PopN(@, n)], val)

VSt(v) == [vars |-> v.vars, dims |-> v.dims, deft |-> v.deft, fns |-> v.fns, col |-> v.col]
VKey(nm) == Key(nm.l, nm.id, nm.sfx, <<>>)
\* Var::store
\* (only after CONT resumed inside a failed statement can the popped entry be a frame marker --
\* Val::Return / Val::Next convert to nothing: TYPE MISMATCH -- or a loop's name, which is a string)
VStore(v, key, val0) ==
  LET val == IF IsMark(val0) THEN Err(ETypeMismatch)
             ELSE IF val0.t = "nm" THEN MkStr(StrCp(val0.s.id) \o StrCp(val0.s.sfx)) ELSE val0
      cv == Assign(TypeOfName(key[1], key[3], v.deft), val) IN
  IF IsBad(cv) THEN Res(v, cv) ELSE Ok([v EXCEPT !.vars = Put(@, key, cv)])

TabVal(col, a) ==
  LET k == ToInt(a) IN
  IF IsBad(k) THEN k
  ELSE IF k.n < -255 \/ k.n > 255 THEN Err(AnyErr)
  ELSE IF k.n < 0 THEN MkStr(Spaces((-k.n) - (col % (-k.n))))
  ELSE MkStr(Spaces(IF k.n > col THEN k.n - col ELSE 0))

\* Runtime::end
VEnd(v) ==
  LET v1 == IF v.pc < v.entry THEN [v EXCEPT !.ct = v.st, !.cp = v.sp, !.contpc = v.pc] ELSE v
      v2 == IF v.pc = v.entry THEN [v1 EXCEPT !.ct = "Stopped"] ELSE v1 IN
  [Ok([v2 EXCEPT !.st = "Stopped"]) EXCEPT !.ev = "stopped"]

\* Runtime::clear
VClear(v) == [v EXCEPT !.dpos = 0, !.stk = <<>>, !.vars = EmptyFn, !.dims = EmptyFn, !.deft = DeftInit,
                       !.fns = EmptyFn, !.ct = "Stopped"]

RECURSIVE VReturn(_, _, _)
\* Runtime::return: unwind to the nearest Return(address); one plain value just above it (a
\* user function's result) is kept
VReturn(v, first, keep) ==
  IF v.stk = <<>> THEN Res(v, Err(EReturnWithoutGosub))
  ELSE LET t == Top(v.stk)  v1 == [v EXCEPT !.stk = PopN(@, 1)] IN
       IF t.t = "R" THEN (IF keep # <<>> THEN PushChk([v1 EXCEPT !.pc = t.n], keep[1]) ELSE Ok([v1 EXCEPT !.pc = t.n]))
       ELSE VReturn(v1, FALSE, IF first /\ t.t \in {"$", "S", "D", "I"} THEN <<t>> ELSE keep)

RECURSIVE VNext(_, _)
\* Runtime::next: the top of the stack must be a Next(address); frames of other variables are dropped
VNext(v, nm) ==
  IF v.stk = <<>> \/ Top(v.stk).t # "N" THEN Res([v EXCEPT !.stk = IF @ = <<>> THEN @ ELSE PopN(@, 1)], Err(ENextWithoutFor))
  ELSE IF Len(v.stk) < 4 THEN Res(v, Err(EInternal))
  ELSE LET body == Top(v.stk).n
           name == v.stk[Len(v.stk) - 1]  step == v.stk[Len(v.stk) - 2]  lim == v.stk[Len(v.stk) - 3]
           v1 == [v EXCEPT !.stk = PopN(@, 4)] IN
       IF name.t # "nm" THEN VNext(v1, nm)
       ELSE IF nm # NoName /\ name.s # nm THEN VNext(v1, nm)
       ELSE LET cur == BinOp("add", Fetch(v.vars, v.deft, VKey(name.s)), step) IN
            IF IsErr(cur) THEN Res(v1, cur)
            ELSE IF IsUnk(cur) THEN Res(v1, cur)
            ELSE LET w == VStore(v1, VKey(name.s), cur) IN
                 IF IsBad(w.e) THEN w
                 ELSE IF IsStr(step) THEN VNext(w.v, nm)
                 ELSE IF ~step.x \/ ~cur.x \/ ~lim.x THEN Res(w.v, Unknown)
                 ELSE LET c == IF step.n < 0 THEN BinOp("lt", cur, lim) ELSE BinOp("lt", lim, cur) IN
                      IF IsBad(c) THEN Res(w.v, c)
                      ELSE IF c.n = -1 THEN Ok(w.v)
                      ELSE Ok([w.v EXCEPT !.stk = @ \o <<lim, step, name, NextV(body)>>, !.pc = body])

\* conversions of stack values to line numbers (LIST / DELETE operands)
LnOf(val) == IF ~IsNum(val) THEN Err(ETypeMismatch)
             ELSE IF ~val.x THEN Unknown
             ELSE LET f == FloorOf(val) IN
                  IF f < 0 \/ f > 65535 THEN Err(EOverflow) ELSE IF f > MaxLine THEN Err(EUndefLine) ELSE MkI(f)

\* how many stack values an opcode takes (those with a count on top: the count and that many more).
\* Too few (only after CONT resumed in the middle of a failed statement) is INTERNAL ERROR; UNDERFLOW:
\* the values that were there are gone.
CountOps == {"PUSHARR", "POPARR", "DIMARR", "FN"}
CountCalls == {"POS", "INSTR", "MID$", "RND"}
Takes(op, stk) ==
  LET n == Len(stk)
      cnt == IF n >= 1 /\ stk[n].t = "I" THEN stk[n].n ELSE 0 IN
  CASE op.o \in {"POP", "IFNOT", "DEF", "PRINT", "NEG", "NOT"} -> 1
    [] op.o \in {"ON", "DEFTYPE", "SWAP", "LIST", "DELETE"} \/ op.o \in DOMAIN OpcBin -> 2
    [] op.o = "LETMID" -> 4
    [] op.o = "POPARR" -> cnt + 2
    [] op.o \in CountOps -> cnt + 1
    [] op.o = "CALL" -> IF op.a \in CountCalls THEN cnt + 1
                        ELSE IF op.a \in {"LEFT$", "RIGHT$", "STRING$"} THEN 2
                        ELSE IF op.a \in {"DATE$", "TIME$", "INKEY$"} THEN 0 ELSE 1
    [] OTHER -> 0
NeedsCount(op) == op.o \in CountOps \/ op.o = "POPARR" \/ (op.o = "CALL" /\ op.a \in CountCalls)

VExecOp1(v0, op) ==
  LET v == [v0 EXCEPT !.pc = @ + 1]
      n == Len(v.stk)
      top == IF n >= 1 THEN v.stk[n] ELSE NoE
      snd == IF n >= 2 THEN v.stk[n - 1] ELSE NoE IN
  CASE op.o = "LIT" -> PushChk(v, op.a)
    [] op.o = "PUSH" -> PushChk(v, Fetch(v.vars, v.deft, VKey(op.a)))
    [] op.o = "POP" -> VStore([v EXCEPT !.stk = PopN(@, 1)], VKey(op.a), top)
    [] op.o \in {"PUSHARR", "POPARR", "DIMARR"} ->
         LET cnt == top.n
             subs == LastN(PopN(v.stk, 1), cnt)
             v1 == [v EXCEPT !.stk = PopN(@, cnt + 1)] IN
         IF op.o = "DIMARR" THEN
            LET aid == ArrId(op.a.id, op.a.sfx)
                bs == [i \in 1..cnt |-> SubVal(subs[i])]
                bad == {i \in 1..cnt : IsBad(bs[i])} IN
            IF aid \in DOMAIN v.dims THEN Res(v1, Err(ERedim))
            ELSE IF bad # {} THEN Res(v1, bs[CHOOSE i \in bad : \A j \in bad : i <= j])
            ELSE Ok([v1 EXCEPT !.dims = FnPut(@, aid, [i \in 1..cnt |-> bs[i].n])])
         ELSE LET ek == ElemKey(op.a.l, op.a.id, op.a.sfx, subs, v.dims)
                  \* (POPARR takes the value off the stack before it looks at the subscripts)
                  v2 == [v1 EXCEPT !.dims = ek.d, !.stk = IF op.o = "POPARR" THEN PopN(@, 1) ELSE @] IN
              IF IsBad(ek.v) THEN Res(v2, ek.v)
              ELSE IF op.o = "PUSHARR" THEN PushChk(v2, Fetch(v.vars, v.deft, ek.key))
              ELSE VStore(v2, ek.key, v1.stk[Len(v1.stk)])
    [] op.o = "ERASEARR" ->
         LET aid == ArrId(op.a.id, op.a.sfx) IN
         IF aid \notin DOMAIN v.dims THEN Res(v, Err(EIllegalFn))
         ELSE Ok([v EXCEPT !.dims = [a \in DOMAIN v.dims \ {aid} |-> v.dims[a]],
                           !.vars = [k \in {k \in DOMAIN v.vars : ~(k[2] = op.a.id /\ k[3] = op.a.sfx /\ k[4] # <<>>)} |-> v.vars[k]]])
    [] op.o = "IFNOT" ->
         LET v1 == [v EXCEPT !.stk = PopN(@, 1)] IN
         IF ~IsNum(top) THEN Res(v1, Err(ETypeMismatch))
         ELSE IF ~top.x THEN Res(v1, Unknown)
         ELSE IF top.n = 0 THEN Ok([v1 EXCEPT !.pc = op.a]) ELSE Ok(v1)
    [] op.o = "JUMP" ->
         LET v1 == [v EXCEPT !.pc = op.a] IN
         IF v.ierr # {} /\ op.a < v.entry
         THEN [Ok(Item([v1 EXCEPT !.st = "Stopped", !.ct = "Stopped"], [k |-> "err", errs |-> v.ierr])) EXCEPT !.ev = "event"]
         ELSE Ok(v1)
    [] op.o = "NEXT" -> VNext(v, op.a)
    [] op.o = "ON" ->
         LET sel == ToInt(top)  v1 == [v EXCEPT !.stk = PopN(@, 2)]  len == snd.n IN
         IF IsBad(sel) THEN Res([v EXCEPT !.stk = PopN(@, 1)], sel)
         ELSE IF sel.n < 0 THEN Res(v1, Err(EIllegalFn))
         ELSE IF sel.n = 0 \/ sel.n > len THEN Ok([v1 EXCEPT !.pc = @ + len])
         ELSE Ok([v1 EXCEPT !.pc = @ + sel.n - 1])
    [] op.o = "RETURN" -> VReturn(v, TRUE, <<>>)
    [] op.o = "CLEAR" -> Ok(VClear(v))
    [] op.o = "CLS" -> [Ok(Item(v, [k |-> "cls"])) EXCEPT !.ev = "event"]
    [] op.o = "CONT" ->
         IF v.ct = "Stopped" \/ v.st # "Running" THEN Res(v, Err(ECantContinue))
         ELSE LET v1 == [v EXCEPT !.st = v.ct, !.sp = v.cp, !.ct = "Stopped", !.pc = v.contpc] IN
              IF v1.st = "Running" THEN Ok(v1) ELSE [Ok(v1) EXCEPT !.ev = "event"]
    [] op.o = "DEF" ->
         IF v.pc >= v.entry THEN Res(v, Err(EIllegalDirect))
         ELSE Ok([v EXCEPT !.stk = PopN(@, 1), !.fns = FnPut(@, op.a, [n |-> top.n, addr |-> v.pc + 1])])
    [] op.o = "DEFTYPE" ->
         LET a == snd.s.l  b == top.s.l IN
         Ok([v EXCEPT !.stk = PopN(@, 2),
                      !.deft = [c \in Letters |-> IF LetterIdx[c] >= LetterIdx[a] /\ LetterIdx[c] <= LetterIdx[b] THEN op.a ELSE v.deft[c]],
                      !.vars = [k \in {k \in DOMAIN v.vars : k[3] # "" \/ v.vars[k].t = op.a} |-> v.vars[k]]])
    [] op.o = "END" -> VEnd(v)
    [] op.o = "STOP" -> Res(v, Err(EBreak))
    [] op.o = "FN" ->
         LET cnt == top.n
             args == LastN(PopN(v.stk, 1), cnt)
             v1 == [v EXCEPT !.stk = PopN(@, cnt + 1)] IN
         IF op.a \notin DOMAIN v.fns THEN Res(v1, Err(EUndefFn))
         ELSE IF v.fns[op.a].n # cnt THEN Res(v1, Err(EIllegalFn))
         ELSE LET s2 == v1.stk \o <<RetV(v.pc)>> \o [i \in 1..cnt |-> args[cnt + 1 - i]] IN
              IF Len(s2) > Limit THEN Res([v1 EXCEPT !.stk = s2], Err(EOutOfMemory))
              ELSE Ok([v1 EXCEPT !.stk = s2, !.pc = v.fns[op.a].addr])
    [] op.o = "INPUT" ->
         IF v.st = "Running" THEN [Ok([v EXCEPT !.st = "Input", !.pc = @ - 1]) EXCEPT !.ev = "event"]
         ELSE IF op.a = NoName THEN Ok([v EXCEPT !.st = "Running", !.stk = PopN(@, 4)])
         ELSE LET f == Trim(top.s)
                  pf == ParseField(f)
                  \* (a field that is not a number stays a string: the assignment refuses it)
                  val == IF op.a.sfx = "$" THEN MkStr(Unquote(f)) ELSE IF IsErr(pf) THEN MkStr(f) ELSE pf IN
              Repl(v, 1, val)
    [] op.o = "PRINT" ->
         LET v1 == [v EXCEPT !.stk = PopN(@, 1)] IN
         IF IsNum(top) /\ ~FmtOK(top) THEN Res(v1, Unknown)
         \* (only after CONT resumed inside a failed statement can a frame marker or a loop's name be printed)
         ELSE IF IsMark(top) THEN [Ok(Emit(v1, <<32>>)) EXCEPT !.ev = "event"]
         ELSE IF top.t = "nm" THEN [Ok(Emit(v1, StrCp(top.s.id) \o StrCp(top.s.sfx))) EXCEPT !.ev = "event"]
         ELSE [Ok(Emit(v1, TextOf(top))) EXCEPT !.ev = "event"]
    [] op.o = "READ" ->
         IF v.dpos >= Len(v.P.link.data) THEN Res(v, Err(EOutOfData))
         ELSE PushChk([v EXCEPT !.dpos = @ + 1], v.P.link.data[v.dpos + 1])
    [] op.o = "RESTORE" -> Ok([v EXCEPT !.dpos = op.a])
    [] op.o = "SWAP" ->
         IF snd.t # top.t THEN Res(v, Err(ETypeMismatch)) ELSE Ok(v)
    [] op.o = "TRON" -> Ok([v EXCEPT !.tron = TRUE, !.tr = LineFor(v.P.link, v.pc - 1)])
    [] op.o = "TROFF" -> Ok([v EXCEPT !.tron = FALSE])
    [] op.o = "NEW" ->
         [Ok([VClear(v) EXCEPT !.lst = EmptyFn, !.dirty = TRUE, !.st = "Stopped", !.tron = FALSE]) EXCEPT !.ev = "stopped"]
    [] op.o = "LIST" ->
         LET a == LnOf(snd)  b == LnOf(top)  v1 == [v EXCEPT !.stk = PopN(@, 2)] IN
         IF IsBad(a) THEN Res(v1, a) ELSE IF IsBad(b) THEN Res(v1, b)
         ELSE IF a.n > b.n THEN Res(v1, Unknown)
         ELSE [Ok([v1 EXCEPT !.st = "Listing", !.sp = <<a.n, b.n>>]) EXCEPT !.ev = "event"]
    [] op.o = "DELETE" ->
         LET a == LnOf(snd)  b == LnOf(top)  v1 == [v EXCEPT !.stk = PopN(@, 2)] IN
         IF IsBad(a) THEN Res(v1, a) ELSE IF IsBad(b) THEN Res(v1, b)
         ELSE IF a.n = 0 /\ b.n = MaxLine THEN Res(v1, Err(EIllegalFn))
         ELSE IF a.n > b.n THEN Res(v1, Unknown)
         ELSE LET keep == {x \in DOMAIN v.lst : x < a.n \/ x > b.n} IN
              IF keep = DOMAIN v.lst THEN VEnd(v1)
              ELSE VEnd([v1 EXCEPT !.lst = [x \in keep |-> v.lst[x]], !.dirty = TRUE,
                                   !.st = "Stopped", !.ct = "Stopped", !.stk = <<>>])
    [] op.o = "LETMID" ->
         \* stack: original, inserted, length, position
         LET pos == ArgInt(top)  cnt == ArgInt(snd)  ins == v.stk[n - 2]  old == v.stk[n - 3]
             v1 == [v EXCEPT !.stk = PopN(@, 4)] IN
         IF IsBad(pos) THEN Res(v1, pos)
         ELSE IF pos.n < 0 THEN Res(v1, Err(AnyErr))
         ELSE IF IsBad(cnt) THEN Res(v1, cnt)
         ELSE IF cnt.n < 0 THEN Res(v1, Err(AnyErr))
         ELSE IF ~IsStr(ins) THEN Res(v1, Err(ETypeMismatch))
         ELSE IF pos.n = 0 THEN Res(v1, Err(AnyErr))
         ELSE IF ~IsStr(old) THEN Res(v1, Err(ETypeMismatch))
         ELSE LET k == Min(Min(cnt.n, Len(ins.s)), IF pos.n > Len(old.s) THEN 0 ELSE Len(old.s) - pos.n + 1) IN
              PushChk(v1, MkStr([i \in 1..Len(old.s) |-> IF i >= pos.n /\ i < pos.n + k THEN ins.s[i - pos.n + 1] ELSE old.s[i]]))
    [] op.o \in {"NEG", "NOT"} -> Repl(v, 1, UnOp(IF op.o = "NEG" THEN "neg" ELSE "not", top))
    [] op.o \in DOMAIN OpcBin -> Repl(v, 2, BinOp(OpcBin[op.o], snd, top))
    [] op.o = "CALL" ->
         IF op.a = "TAB" THEN Repl(v, 1, TabVal(v.col, top))
         ELSE IF op.a = "POS" THEN Repl(v, top.n + 1, MkI(v.col))
         ELSE IF op.a \in {"INSTR", "MID$"} THEN Repl(v, top.n + 1, Call(op.a, LastN(PopN(v.stk, 1), top.n)))
         ELSE IF op.a \in {"RND", "DATE$", "TIME$", "INKEY$"} THEN Res(v, Unknown)
         ELSE IF op.a \in {"LEFT$", "RIGHT$", "STRING$"} THEN Repl(v, 2, Call(op.a, <<snd, top>>))
         ELSE Repl(v, 1, Call(op.a, <<top>>))
    [] OTHER -> Res(v, Unknown)

VExecOp(v0, op) ==
  IF Len(v0.stk) < Takes(op, v0.stk) \/ (NeedsCount(op) /\ v0.stk # <<>> /\ Top(v0.stk).t # "I")
  THEN Res([v0 EXCEPT !.pc = @ + 1, !.stk = <<>>], Err(EInternal))
  ELSE VExecOp1(v0, op)

\* ---- Runtime::execute(1): the state prelude, then at most one opcode
ReadyPrompt(v) == [Emit(FreshLine(v), ReadyText) EXCEPT !.entry = 0]
LineOfPc(v) == LineFor(v.P.link, IF v.pc = 0 THEN 0 ELSE v.pc - 1)
ErrItem(code, ln) == [k |-> "err", errs |-> {[code |-> code, ln |-> ln]}]

\* the error path of execute
VRaise(v, e) ==
  IF IsUnk(e) THEN VOom(v, "value")
  ELSE IF v.st = "InputRunning" THEN
       \* unwind to the Return(address) Runtime::do_input pushed: back to the INPUT opcode
       LET idx == {i \in 1..Len(v.stk) : v.stk[i].t = "R"}
           top == IF idx = {} THEN 0 ELSE CHOOSE i \in idx : \A j \in idx : j <= i IN
       IF top = 0 THEN [v EXCEPT !.stk = <<>>, !.st = "InputRedo"]
       ELSE [v EXCEPT !.stk = SubSeq(@, 1, top - 1), !.pc = v.stk[top].n, !.st = "InputRedo"]
  ELSE LET v1 == [v EXCEPT !.ct = v.st, !.cp = v.sp, !.st = "RuntimeError", !.sp = [code |-> e.n, ln |-> LineOfPc(v)],
                           !.contpc = v.pc] IN
       IF v.pc >= v.entry \/ Len(v.stk) > Limit THEN [v1 EXCEPT !.stk = <<>>, !.ct = "Stopped"] ELSE v1

VLoop(v) ==
  LET tr == LineFor(v.P.link, v.pc) IN
  IF v.tron /\ tr # v.tr /\ tr >= 0
  THEN Emit([v EXCEPT !.tr = tr], <<91>> \o DigitsOf(tr) \o <<93>>)
  ELSE LET v1 == IF v.tron THEN [v EXCEPT !.tr = tr] ELSE v IN
       IF v1.pc >= Len(v1.P.link.ops) THEN VRaise(v1, Err(EInternal))
       ELSE LET r == VExecOp(v1, v1.P.link.ops[v1.pc + 1]) IN
            IF r.e # NoE THEN VRaise(r.v, r.e)
            ELSE IF r.ev = "stopped" /\ r.v.st = "Stopped"
                 THEN (IF r.v.entry # 0 THEN ReadyPrompt(r.v) ELSE [r.v EXCEPT !.wait = "stopped"])
            ELSE r.v

VAfter(v) ==
  IF v.st = "RuntimeError"
  THEN IF v.col > 0 THEN Emit(v, <<10>>)
       ELSE Item([v EXCEPT !.st = "Stopped"], ErrItem(v.sp.code, v.sp.ln))
  ELSE VLoop(v)

VExecute(v) ==
  CASE v.st = "Stopped" -> IF v.entry # 0 THEN ReadyPrompt(v) ELSE [v EXCEPT !.wait = "stopped"]
    [] v.st = "Interrupt" -> VAfter([v EXCEPT !.st = "RuntimeError", !.sp = [code |-> EBreak, ln |-> LineOfPc(v)]])
    [] v.st = "Listing" ->
         LET c == {x \in DOMAIN v.lst : x >= v.sp[1] /\ x <= v.sp[2]} IN
         IF c = {} THEN VLoop([v EXCEPT !.st = "Running"])
         ELSE LET x == CHOOSE x \in c : \A y \in c : x <= y IN
              Item([v EXCEPT !.sp = <<x + 1, v.sp[2]>>], [k |-> "list", ln |-> x])
    [] v.st = "Input" ->
         \* execute_input: stack is prompt, caps, count
         LET n == Len(v.stk) IN
         IF n < 3 \/ ~IsStr(v.stk[n - 2]) THEN VRaise(v, Err(EInternal))
         ELSE [Item(v, [k |-> "input", s |-> v.stk[n - 2].s \o <<63, 32>>, caps |-> v.stk[n - 1].n # 0])
                 EXCEPT !.col = 0, !.wait = "input"]
    [] v.st = "InputRedo" -> Item([v EXCEPT !.st = "Input"], ErrItem(ERedo, -1))
    [] v.st \in {"Running", "InputRunning"} ->
         IF v.derr # {} THEN Item([v EXCEPT !.st = "Stopped"], [k |-> "err", errs |-> v.derr]) ELSE VLoop(v)
    [] v.st = "RuntimeError" -> VAfter(v)
    [] OTHER -> v

\* ---- Runtime::enter
VRecompile(v) == IF v.dirty THEN [v EXCEPT !.P = CompileProgram(v.lst), !.dirty = FALSE] ELSE v
VEnterDirect(v0, stmts) ==
  LET v == VRecompile([v0 EXCEPT !.resp = <<>>, !.wait = ""])
      P == CompileDirect(v.P, stmts) IN
  [v EXCEPT !.P = P, !.pc = P.daddr, !.tr = -1, !.entry = P.daddr, !.ierr = P.ierr, !.derr = P.errs, !.st = "Running"]
VEnterLine(v0, n, stmts) ==
  LET v == [v0 EXCEPT !.resp = <<>>, !.ct = "Stopped", !.stk = <<>>] IN
  IF stmts = <<>> THEN (IF n \in DOMAIN v.lst THEN [v EXCEPT !.lst = [x \in DOMAIN v.lst \ {n} |-> v.lst[x]], !.dirty = TRUE] ELSE v)
  ELSE [v EXCEPT !.lst = FnPut(@, n, stmts), !.dirty = TRUE]
\* Runtime::enter_input / do_input
VReply(v0, text) ==
  LET v == [v0 EXCEPT !.resp = <<>>, !.wait = "", !.col = 0]
      cnt == Top(v.stk).n
      fields == IF cnt <= 1 THEN <<text>> ELSE SplitFields(text, 1, <<>>, FALSE) IN
  IF Len(text) > 1024 \/ Len(fields) # Max(cnt, 1) THEN [v EXCEPT !.st = "InputRedo"]
  ELSE [v EXCEPT !.stk = @ \o <<RetV(v.pc)>> \o [i \in 1..Len(fields) |-> MkStr(fields[Len(fields) + 1 - i])],
                 !.st = "InputRunning"]
\* Runtime::interrupt
VInterrupt(v0) ==
  LET v == [v0 EXCEPT !.resp = <<>>, !.wait = ""]
      v1 == [v EXCEPT !.ct = v.st, !.cp = v.sp, !.st = "Interrupt", !.contpc = v.pc] IN
  IF v.pc >= v.entry THEN [v1 EXCEPT !.ct = "Stopped", !.stk = <<>>] ELSE v1

VApply(v, c) ==
  CASE c.k = "line" -> VEnterLine(v, c.n, c.stmts)
    [] c.k = "direct" -> VEnterDirect(v, c.stmts)
    [] c.k = "reply" -> VReply(v, c.s)
    [] c.k = "int" -> VInterrupt(v)

RECURSIVE VRunToWait(_, _)
VRunToWait(v, fuel) == IF v.wait # "" THEN v ELSE IF fuel = 0 THEN VOom(v, "fuel") ELSE VRunToWait(VExecute(v), fuel - 1)

\* ---------------------------------------------------------------- the stack discipline
\* what a stack may hold between two statements: GOSUB return addresses and FOR frames
\* (limit, step, name, Next); while an INPUT is pending also its prompt, flag and count
RECURSIVE FramesOnly(_, _)
FramesOnly(stk, i) ==
  IF i = 0 THEN TRUE
  ELSE IF stk[i].t = "R" THEN FramesOnly(stk, i - 1)
  ELSE IF stk[i].t = "N" THEN i >= 4 /\ stk[i - 1].t = "nm" /\ IsNum(stk[i - 2]) /\ IsNum(stk[i - 3]) /\ FramesOnly(stk, i - 4)
  ELSE FALSE
=============================================================================
