INIT Init
NEXT Next
INVARIANT SpellingSound
INVARIANT Emit
CHECK_DEADLOCK FALSE
