----------------------------- MODULE BasicLex -----------------------------
(***************************************************************************)
(* The token language of 64K BASIC and the listed text of a token sequence. *)
(* Text is a sequence of code points.  Lex(chars) is the intended scanner:  *)
(* the scanner of src/lang/lex.rs with its documented rules (line-number    *)
(* prefix 0..65529; numbers with the literal typing rules of chapter 1;     *)
(* reserved words recognised anywhere inside alphabetic runs, leftmost      *)
(* first, then longest first; strings to the closing quote or the end of    *)
(* the line; REM and ' swallow the rest; two-character relational operators *)
(* with optional blanks between; GO TO / GO SUB; ? = PRINT) and with its    *)
(* three known scanning defects repaired (DESIGN 6: #1 endless loop on an   *)
(* exponent letter followed by another one, #14 lower-case exponent letters *)
(* after an exponent, #15 a D that is not an exponent).                     *)
(* ShowT is the listing's text of a token sequence (Display in token.rs).   *)
(*                                                                          *)
(* Tokens:  [k |-> "ws", n]            [k |-> "num", t, s]   t in I S D     *)
(*          [k |-> "hex" / "oct", s]   [k |-> "str", s]                     *)
(*          [k |-> "word", s]  keyword [k |-> "op", s]       operator       *)
(*          [k |-> "id", s]  identifier incl. suffix                        *)
(*          [k |-> "p", s]   ( ) , : ; [k |-> "unk", s]                     *)
(***************************************************************************)
EXTENDS Integers, Sequences, FiniteSets, TLC

Tok(k, s) == [k |-> k, s |-> s, n |-> 0, t |-> ""]
TWs(n) == [k |-> "ws", s |-> <<>>, n |-> n, t |-> ""]
TNum(t, s) == [k |-> "num", s |-> s, n |-> 0, t |-> t]

IsWsC(c) == c = 32 \/ c = 9
IsDigC(c) == c >= 48 /\ c <= 57
IsAlphaC(c) == (c >= 65 /\ c <= 90) \/ (c >= 97 /\ c <= 122)
UpC(c) == IF c >= 97 /\ c <= 122 THEN c - 32 ELSE c
IsSfxC(c) == c \in {36, 33, 35, 37}         \* $ ! # %
At(cs, i) == IF i >= 1 /\ i <= Len(cs) THEN cs[i] ELSE -1

\* ---- reserved words, in the order the scanner tries them (longest first)
KW(s) == s
Words == << <<82,69,83,84,79,82,69>>, <<68,69,70,68,66,76>>, <<68,69,70,73,78,84>>, <<68,69,70,83,78,71>>,
            <<68,69,70,83,84,82>>, <<68,69,76,69,84,69>>, <<82,69,84,85,82,78>>, <<67,76,69,65,82>>, <<69,82,65,83,69>>,
            <<71,79,83,85,66>>, <<73,78,80,85,84>>, <<80,82,73,78,84>>, <<82,69,78,85,77>>, <<84,82,79,70,70>>,
            <<87,72,73,76,69>>, <<67,79,78,84>>, <<68,65,84,65>>, <<69,76,83,69>>, <<71,79,84,79>>, <<78,69,88,84>>,
            <<76,73,83,84>>, <<76,79,65,68>>, <<82,69,65,68>>, <<83,65,86,69>>, <<83,84,69,80>>, <<83,84,79,80>>,
            <<83,87,65,80>>, <<84,72,69,78>>, <<84,82,79,78>>, <<87,69,78,68>>, <<65,78,68>>, <<67,76,83>>, <<68,69,70>>,
            <<68,73,77>>, <<69,78,68>>, <<69,81,86>>, <<70,79,82>>, <<73,77,80>>, <<76,69,84>>, <<77,79,68>>, <<78,69,87>>,
            <<78,79,84>>, <<82,69,77>>, <<82,85,78>>, <<88,79,82>>, <<73,70>>, <<79,78>>, <<79,82>>, <<84,79>> >>
OpWords == { <<65,78,68>>, <<69,81,86>>, <<73,77,80>>, <<77,79,68>>, <<78,79,84>>, <<88,79,82>>, <<79,82>> }
W_REM == <<82,69,77>>   W_GO == <<71,79>>   W_SUB == <<83,85,66>>   W_TO == <<84,79>>
W_GOTO == <<71,79,84,79>>   W_GOSUB == <<71,79,83,85,66>>   W_PRINT == <<80,82,73,78,84>>   W_LET == <<76,69,84>>
KwTok(w) == IF w \in OpWords THEN Tok("op", w) ELSE Tok("word", w)

\* position of the first occurrence of w in s (0 if none)
Occurs(s, w, i) == i + Len(w) - 1 <= Len(s) /\ SubSeq(s, i, i + Len(w) - 1) = w
FirstAt(s, w) == LET I == {i \in 1..Len(s) : Occurs(s, w, i)} IN
                 IF I = {} THEN 0 ELSE CHOOSE i \in I : \A j \in I : i <= j
\* the reserved word found first in s: leftmost, ties broken by table order; 0 if none
BestWord(s) ==
  LET hits == {k \in 1..Len(Words) : FirstAt(s, Words[k]) > 0} IN
  IF hits = {} THEN 0
  ELSE CHOOSE k \in hits : \A j \in hits :
         FirstAt(s, Words[k]) < FirstAt(s, Words[j]) \/ (FirstAt(s, Words[k]) = FirstAt(s, Words[j]) /\ k <= j)
RECURSIVE Crunch(_)
\* split an upper-case alphabetic run at reserved words: [toks, rest]
Crunch(s) ==
  LET k == BestWord(s) IN
  IF k = 0 THEN [toks |-> <<>>, rest |-> s]
  ELSE LET w == Words[k]  i == FirstAt(s, w)
           r == Crunch(SubSeq(s, i + Len(w), Len(s))) IN
       [toks |-> (IF i = 1 THEN <<>> ELSE <<Tok("id", SubSeq(s, 1, i - 1))>>) \o <<KwTok(w)>> \o r.toks, rest |-> r.rest]

\* ---- numbers.  Returns [tok, next]: the literal and the index of the first character after it
NumType(s, digits, decimal, exp) ==
  IF digits > 7 THEN "D"
  ELSE IF ~exp /\ ~decimal /\ Len(s) <= 8 /\ (\A i \in 1..Len(s) : IsDigC(s[i]))
          /\ (LET RECURSIVE V(_, _)
                  V(i, acc) == IF i > Len(s) THEN acc ELSE V(i + 1, acc * 10 + (s[i] - 48))
              IN V(1, 0) <= 32767) THEN "I"
  ELSE "S"
IsExpC(c) == c \in {69, 68, 101, 100}
RECURSIVE NumScan(_, _, _, _, _, _)
NumScan(cs, i, s, digits, decimal, exp) ==
  LET ch == UpC(cs[i])                    \* only e / d matter: other letters never get here
      s1 == Append(s, IF IsExpC(cs[i]) THEN ch ELSE cs[i])
      pk == At(cs, i + 1)
      dg1 == IF ~exp /\ IsDigC(ch) THEN digits + 1 ELSE digits
      dec1 == decimal \/ ch = 46
      fin(ss, dg, de, ex) == [tok |-> TNum(NumType(ss, dg, de, ex), ss), next |-> i + 1]
  IN
  IF ch = 33 THEN [tok |-> TNum("S", s1), next |-> i + 1]
  ELSE IF ch = 35 THEN [tok |-> TNum("D", s1), next |-> i + 1]
  ELSE IF ch = 37 THEN [tok |-> TNum("I", s1), next |-> i + 1]
  ELSE IF pk = -1 THEN
       \* end of the text: a trailing exponent letter stays in the literal; D makes it a Double
       [tok |-> TNum(NumType(s1, IF ch = 68 THEN dg1 + 8 ELSE dg1, dec1, exp), s1), next |-> i + 1]
  ELSE IF ch \in {69, 68} /\ ~exp THEN
       (IF pk \in {43, 45} THEN NumScan(cs, i + 1, s1, IF ch = 68 THEN dg1 + 8 ELSE dg1, dec1, TRUE)
        ELSE IF IsDigC(pk) THEN NumScan(cs, i + 1, s1, IF ch = 68 THEN dg1 + 8 ELSE dg1, dec1, TRUE)
        \* the letter is not an exponent: the number ends before it
        ELSE [tok |-> TNum(NumType(s, digits, decimal, exp), s), next |-> i])
  ELSE IF IsDigC(pk) THEN NumScan(cs, i + 1, s1, dg1, dec1, exp)
  ELSE IF ~exp /\ ~dec1 /\ pk = 46 THEN NumScan(cs, i + 1, s1, dg1, dec1, exp)
  ELSE IF ~exp /\ IsExpC(pk) THEN NumScan(cs, i + 1, s1, dg1, dec1, exp)
  ELSE IF pk \in {33, 35, 37} THEN NumScan(cs, i + 1, s1, dg1, dec1, exp)
  ELSE fin(s1, dg1, dec1, exp)

\* ---- identifiers and reserved words.  Returns [toks, next]
RECURSIVE AlphaScan(_, _, _, _, _)
AlphaScan(cs, i, s, digit, acc) ==
  LET ch == UpC(cs[i])
      s1 == Append(s, ch)
      dg == digit \/ IsDigC(ch)
      pk == At(cs, i + 1) IN
  IF IsSfxC(ch) THEN [toks |-> Append(acc, Tok("id", s1)), next |-> i + 1]
  ELSE IF pk # -1 /\ IsAlphaC(pk) THEN
       (IF dg THEN [toks |-> Append(acc, Tok("id", s1)), next |-> i + 1]
        ELSE AlphaScan(cs, i + 1, s1, dg, acc))
  ELSE IF pk # -1 /\ (IsDigC(pk) \/ IsSfxC(pk)) THEN
       (LET c == Crunch(s1) IN
        IF c.rest = <<>> THEN [toks |-> acc \o c.toks, next |-> i + 1]
        ELSE AlphaScan(cs, i + 1, c.rest, dg, acc \o c.toks))
  ELSE LET c == Crunch(s1) IN
       [toks |-> acc \o c.toks \o (IF c.rest = <<>> THEN <<>> ELSE <<Tok("id", c.rest)>>), next |-> i + 1]

\* ---- strings, radix literals, punctuation
RECURSIVE StrScan(_, _, _)
StrScan(cs, i, s) == IF i > Len(cs) THEN [tok |-> Tok("str", s), next |-> i]
                     ELSE IF cs[i] = 34 THEN [tok |-> Tok("str", s), next |-> i + 1]
                     ELSE StrScan(cs, i + 1, Append(s, cs[i]))
IsOctC(c) == c >= 48 /\ c <= 55
IsHexC(c) == IsDigC(c) \/ (UpC(c) >= 65 /\ UpC(c) <= 70)
RECURSIVE RadixScan(_, _, _, _)
RadixScan(cs, i, hex, s) ==
  IF i <= Len(cs) /\ (IF hex THEN IsHexC(cs[i]) ELSE IsOctC(cs[i])) THEN RadixScan(cs, i + 1, hex, Append(s, UpC(cs[i])))
  ELSE [tok |-> Tok(IF hex THEN "hex" ELSE "oct", s), next |-> i]
Minutia(c) == CASE c \in {40, 41, 44, 58, 59} -> Tok("p", <<c>>)
                [] c = 63 -> Tok("word", W_PRINT)
                [] c = 39 -> Tok("word", <<39>>)
                [] c \in {94, 42, 47, 92, 43, 45, 61, 60, 62} -> Tok("op", <<c>>)
                [] OTHER -> Tok("unk", <<c>>)
IsMin(c) == c \in {40, 41, 44, 58, 59, 63, 39, 94, 42, 47, 92, 43, 45, 61, 60, 62}
RECURSIVE UnkScan(_, _, _)
\* an unknown run: grows until it is itself a known sign (only possible for its first character)
\* or the next character is a letter, a digit or a blank
UnkScan(cs, i, s) ==
  LET s1 == Append(s, cs[i])  pk == At(cs, i + 1) IN
  IF pk = -1 \/ IsAlphaC(pk) \/ IsDigC(pk) \/ IsWsC(pk) THEN [tok |-> Tok("unk", s1), next |-> i + 1]
  ELSE UnkScan(cs, i + 1, s1)
RECURSIVE WsLen(_, _)
WsLen(cs, i) == IF i <= Len(cs) /\ IsWsC(cs[i]) THEN 1 + WsLen(cs, i + 1) ELSE 0

\* ---- the token loop
RECURSIVE Scan(_, _, _)
Scan(cs, i, acc) ==
  IF i > Len(cs) THEN acc
  ELSE LET c == cs[i] IN
  IF IsWsC(c) THEN LET n == WsLen(cs, i) IN Scan(cs, i + n, Append(acc, TWs(n)))
  ELSE IF IsDigC(c) \/ c = 46 THEN LET r == NumScan(cs, i, <<>>, 0, FALSE, FALSE) IN Scan(cs, r.next, Append(acc, r.tok))
  ELSE IF IsAlphaC(c) THEN
       (LET r == AlphaScan(cs, i, <<>>, FALSE, <<>>) IN
        \* REM as the first word of the run starts a remark: the rest of the line is its text
        IF r.toks # <<>> /\ r.toks[1] = Tok("word", W_REM)
        \* (words crunched out of the same run after REM are still delivered as tokens)
        THEN acc \o r.toks \o (IF r.next > Len(cs) THEN <<>> ELSE <<Tok("unk", SubSeq(cs, r.next, Len(cs)))>>)
        ELSE Scan(cs, r.next, acc \o r.toks))
  ELSE IF c = 34 THEN LET r == StrScan(cs, i + 1, <<>>) IN Scan(cs, r.next, Append(acc, r.tok))
  ELSE IF c = 38 THEN
       (LET hex == At(cs, i + 1) \in {72, 104}
            r == RadixScan(cs, IF hex THEN i + 2 ELSE i + 1, hex, <<>>) IN Scan(cs, r.next, Append(acc, r.tok)))
  ELSE IF IsMin(c) THEN
       (IF c = 39 THEN acc \o <<Minutia(c)>> \o (IF i = Len(cs) THEN <<>> ELSE <<Tok("unk", SubSeq(cs, i + 1, Len(cs)))>>)
        ELSE Scan(cs, i + 1, Append(acc, Minutia(c))))
  ELSE LET r == UnkScan(cs, i, <<>>) IN Scan(cs, r.next, Append(acc, r.tok))

\* ---- post-passes
RECURSIVE TrimR(_)
TrimR(s) == IF s # <<>> /\ (IsWsC(s[Len(s)]) \/ s[Len(s)] \in {10, 13, 11, 12}) THEN TrimR(SubSeq(s, 1, Len(s) - 1)) ELSE s
TrimEnd(ts) ==
  LET t1 == IF ts # <<>> /\ ts[Len(ts)].k = "ws" THEN SubSeq(ts, 1, Len(ts) - 1) ELSE ts IN
  IF t1 # <<>> /\ t1[Len(t1)].k = "unk" THEN [t1 EXCEPT ![Len(t1)] = Tok("unk", TrimR(@.s))] ELSE t1
IsOp(t, c) == t.k = "op" /\ t.s = <<c>>
Triple(a, b, c) ==
  IF b.k # "ws" THEN <<>>
  ELSE IF IsOp(a, 60) /\ IsOp(c, 62) THEN <<Tok("op", <<60, 62>>)>>
  ELSE IF IsOp(a, 60) /\ IsOp(c, 61) THEN <<Tok("op", <<60, 61>>)>>
  ELSE IF IsOp(a, 61) /\ IsOp(c, 62) THEN <<Tok("op", <<62, 61>>)>>
  ELSE IF IsOp(a, 61) /\ IsOp(c, 60) THEN <<Tok("op", <<60, 61>>)>>
  ELSE IF IsOp(a, 62) /\ IsOp(c, 60) THEN <<Tok("op", <<60, 62>>)>>
  ELSE IF IsOp(a, 62) /\ IsOp(c, 61) THEN <<Tok("op", <<62, 61>>)>>
  ELSE IF a = Tok("id", W_GO) /\ c = Tok("word", W_TO) THEN <<Tok("word", W_GOTO)>>
  ELSE IF a = Tok("id", W_GO) /\ c = Tok("id", W_SUB) THEN <<Tok("word", W_GOSUB)>>
  ELSE <<>>
RECURSIVE ApplyTriples(_, _)
\* matches are found on the original sequence and spliced from the last to the first
ApplyTriples(ts, i) ==
  IF i < 1 THEN ts
  ELSE LET r == IF i + 2 <= Len(ts) THEN Triple(ts[i], ts[i + 1], ts[i + 2]) ELSE <<>> IN
       ApplyTriples(IF r = <<>> \/ i + 2 > Len(ts) THEN ts
                    ELSE SubSeq(ts, 1, i - 1) \o r \o SubSeq(ts, i + 3, Len(ts)), i - 1)
\* positions matching on the ORIGINAL token sequence
TriplePos(ts) == {i \in 1..(Len(ts) - 2) : Triple(ts[i], ts[i + 1], ts[i + 2]) # <<>>}
RECURSIVE SpliceTriples(_, _, _)
SpliceTriples(orig, ts, todo) ==
  IF todo = {} THEN ts
  ELSE LET i == CHOOSE x \in todo : \A y \in todo : x >= y
           r == Triple(orig[i], orig[i + 1], orig[i + 2]) IN
       SpliceTriples(orig, SubSeq(ts, 1, i - 1) \o r \o SubSeq(ts, i + 3, Len(ts)), todo \ {i})
CollapseTriples(ts) == SpliceTriples(ts, ts, TriplePos(ts))
Double(a, b) ==
  IF IsOp(a, 61) /\ IsOp(b, 62) THEN <<Tok("op", <<62, 61>>)>>
  ELSE IF IsOp(a, 61) /\ IsOp(b, 60) THEN <<Tok("op", <<60, 61>>)>>
  ELSE IF IsOp(a, 62) /\ IsOp(b, 61) THEN <<Tok("op", <<62, 61>>)>>
  ELSE IF IsOp(a, 60) /\ IsOp(b, 61) THEN <<Tok("op", <<60, 61>>)>>
  ELSE IF IsOp(a, 60) /\ IsOp(b, 62) THEN <<Tok("op", <<60, 62>>)>>
  ELSE <<>>
RECURSIVE DoublePos(_, _)
\* left to right over the original sequence; a match skips the next window
DoublePos(ts, i) == IF i + 1 > Len(ts) THEN {}
                    ELSE IF Double(ts[i], ts[i + 1]) # <<>> THEN {i} \cup DoublePos(ts, i + 2)
                    ELSE DoublePos(ts, i + 1)
RECURSIVE SpliceDoubles(_, _, _)
SpliceDoubles(orig, ts, todo) ==
  IF todo = {} THEN ts
  ELSE LET i == CHOOSE x \in todo : \A y \in todo : x >= y IN
       SpliceDoubles(orig, SubSeq(ts, 1, i - 1) \o Double(orig[i], orig[i + 1]) \o SubSeq(ts, i + 2, Len(ts)), todo \ {i})
CollapseDoubles(ts) == SpliceDoubles(ts, ts, DoublePos(ts, 1))
IsWordy(t) == t.k \in {"word", "id", "num", "hex", "oct", "str"} \/ (t.k = "op" /\ t.s \in OpWords)
RECURSIVE Separate(_, _)
Separate(ts, i) == IF i > Len(ts) THEN <<>>
                   ELSE <<ts[i]>> \o (IF i < Len(ts) /\ IsWordy(ts[i]) /\ IsWordy(ts[i + 1]) THEN <<TWs(1)>> ELSE <<>>)
                        \o Separate(ts, i + 1)
PostPass(ts) == Separate(CollapseDoubles(CollapseTriples(TrimEnd(ts))), 1)

\* ---- the line-number prefix
RECURSIVE PrefixEnd(_, _, _)
\* index of the first character after the candidate prefix (blanks, then digits)
PrefixEnd(cs, i, seen) ==
  IF i > Len(cs) THEN i
  ELSE IF seen /\ IsWsC(cs[i]) THEN i
  ELSE IF IsDigC(cs[i]) THEN PrefixEnd(cs, i + 1, TRUE)
  ELSE IF IsWsC(cs[i]) THEN PrefixEnd(cs, i + 1, seen)
  ELSE i
RECURSIVE DigVal(_, _, _)
DigVal(cs, i, acc) == IF i > Len(cs) \/ acc > 99999 THEN acc ELSE DigVal(cs, i + 1, acc * 10 + (cs[i] - 48))
RECURSIVE DropWs(_)
DropWs(s) == IF s # <<>> /\ (IsWsC(s[1]) \/ s[1] \in {10, 13, 11, 12}) THEN DropWs(Tail(s)) ELSE s
\* the line: [num |-> line number or -1, toks]
Lex(cs) ==
  LET e == PrefixEnd(cs, 1, FALSE)
      d == DropWs(SubSeq(cs, 1, e - 1))
      ok == d # <<>> /\ (\A i \in 1..Len(d) : IsDigC(d[i])) /\ DigVal(d, 1, 0) <= 65529
      start == IF ok THEN (IF At(cs, e) = 32 THEN e + 1 ELSE e) ELSE 1
  IN  [num |-> IF ok THEN DigVal(d, 1, 0) ELSE -1, toks |-> PostPass(Scan(SubSeq(cs, start, Len(cs)), 1, <<>>))]

\* ---- the listed text
RECURSIVE Dec(_)
Dec(n) == IF n < 10 THEN <<48 + n>> ELSE Dec(n \div 10) \o <<48 + (n % 10)>>
ShowTok(t) == CASE t.k = "ws" -> [i \in 1..t.n |-> 32]
                [] t.k = "hex" -> <<38, 72>> \o t.s
                [] t.k = "oct" -> <<38>> \o t.s
                [] t.k = "str" -> <<34>> \o t.s \o <<34>>
                [] OTHER -> t.s
RECURSIVE ShowToks(_, _)
ShowToks(ts, i) == IF i > Len(ts) THEN <<>> ELSE ShowTok(ts[i]) \o ShowToks(ts, i + 1)
ShowL(l) == (IF l.num >= 0 THEN Dec(l.num) \o <<32>> ELSE <<>>) \o ShowToks(l.toks, 1)

\* ---- meaning: what the parser sees (blanks, the optional LET and the choice of remark marker
\* do not matter)
\* Everything after a remark marker is remark text, however the scanner happened to cut it into
\* tokens ("REMA" scans as REM, A; its listing "REM A" as REM and the text " A"): it means its
\* characters, blanks at either end apart.
IsRemMark(t) == t = Tok("word", W_REM) \/ t = Minutia(39)
RemIdx(ts) == LET I == {i \in 1..Len(ts) : IsRemMark(ts[i])} IN
              IF I = {} THEN 0 ELSE CHOOSE i \in I : \A j \in I : i <= j
RECURSIVE TrimBoth(_)
TrimBoth(s) == IF s # <<>> /\ IsWsC(s[1]) THEN TrimBoth(Tail(s))
               ELSE IF s # <<>> /\ IsWsC(s[Len(s)]) THEN TrimBoth(SubSeq(s, 1, Len(s) - 1)) ELSE s
Meaning(l) == LET r == RemIdx(l.toks)
                  code == IF r = 0 THEN l.toks ELSE SubSeq(l.toks, 1, r) IN
              [num |-> l.num,
               toks |-> SelectSeq(code, LAMBDA t : t.k # "ws" /\ t # Tok("word", W_LET)),
               rem |-> IF r = 0 THEN <<>> ELSE TrimBoth(ShowToks(SubSeq(l.toks, r + 1, Len(l.toks)), 1))]
=============================================================================
