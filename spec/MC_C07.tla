------------------------------ MODULE MC_C07 ------------------------------
(***************************************************************************)
(* C07: string operations work on characters, as documented, within 0..255. *)
(* TLC enumerates every function x argument combination of the grid below   *)
(* on the specification's string operators (code-point sequences), checks   *)
(* laws relating them on the specification itself, and prints each case     *)
(* with the expected value / error for replay against the real VM.          *)
(***************************************************************************)
EXTENDS BasicExpr, Json
CONSTANTS Wide

VARIABLE c

Lit(v) == [k |-> "lit", v |-> v]
LI(n) == Lit(MkI(n))
LSt(s) == Lit(MkStr(s))
Fn(f, args) == [k |-> "call", f |-> f, args |-> args]
Bin(op, a, b) == [k |-> "bin", op |-> op, a |-> a, b |-> b]
VS == [k |-> "var", l |-> "S", id |-> "S", sfx |-> "$"]
VT == [k |-> "var", l |-> "T", id |-> "T", sfx |-> "$"]

Run(ch, n) == [i \in 1..n |-> ch]
Strs == { <<>>, <<65>>, <<65, 66>>, <<65, 66, 65>>, <<233>>, <<97, 233>>, <<233, 97, 128512, 98>>, <<66, 65, 66, 65, 66>> }
\* first characters around the 16-bit limits (ASC's result type changes there)
AscStrs == { <<32767>>, <<32768, 65>>, <<35486>>, <<65535>>, <<65536>>, <<128512, 65>> }
Longs == { Run(120, 254), Run(120, 255), Run(233, 255) }
Pats == { <<>>, <<65>>, <<66, 65>>, <<233>>, <<128512, 98>>, <<90>>, <<65, 66, 65, 66>> }
Nums == { -1, 0, 1, 2, 3, 4, 5, 255, 256, 32767 } 
NumX(n) == IF n < 0 THEN [k |-> "un", op |-> "neg", a |-> LI(-n)] ELSE LI(n)
Half == Lit(MkF("S", 5, 1))          \* 2.5
Codes == { -1, 0, 65, 233, 255, 256, 8364, 32767 }
BigCodes == { 128512, 55296, 57343, 1114111, 1114112 }   \* as Singles
IntArgs == { -32768, -32767, -256, -1, 0, 1, 9, 10, 15, 16, 255, 256, 4095, 32767 }
ValTexts == { <<49, 50, 65, 66>>, <<32, 45, 51, 46, 53, 69, 49, 88>>, <<38, 72, 49, 70>>, <<>>, <<69>>, <<49, 68, 50>>,
              <<38, 49, 55>>, <<46, 53>>, <<45>>, <<49, 46>>, <<50, 53, 54>>, <<32, 55, 32>>, <<49, 69, 45, 50>>,
              <<51, 50, 55, 54, 56>>, <<65, 49>>, <<38, 72>>, <<38, 72, 68>>, <<38, 104, 49, 100>>, <<38, 72, 68, 69>>, <<49, 50, 51, 52, 53, 54, 55>>, <<48, 46, 49, 50, 53>> }
StrNums == { MkI(0), MkI(5), MkI(-12), MkI(32767), MkI(-32768), MkF("S", 5, 1), MkF("S", -3, 2), MkF("D", 1, 3), MkF("S", 1234567, 0) }

Cases ==
  [k : {"len", "asc"}, s : Strs \cup Longs \cup AscStrs]
  \cup [k : {"chrasc"}, s : AscStrs]
  \cup [k : {"left", "right"}, s : Strs \cup {Run(120, 255)}, n : Nums]
  \cup [k : {"lefth", "midh"}, s : Strs]
  \cup [k : {"mid2"}, s : Strs, p : Nums]
  \cup [k : {"mid3"}, s : Strs, p : Nums \ {32767}, n : Nums \ {32767, 256}]
  \cup [k : {"instr2"}, s : Strs, t : Pats]
  \cup [k : {"instr3"}, s : Strs, t : Pats, p : {0, 1, 2, 3, 4, 5, 6}]
  \cup [k : {"chr"}, n : Codes] \cup [k : {"chrbig"}, n : BigCodes]
  \cup [k : {"string"}, n : {-1, 0, 1, 3, 255, 256}, ch : {65, 233, 128512}]
  \cup [k : {"stringn"}, n : {0, 2, 255}, ch : {65, 233, -1, 256}]
  \cup [k : {"stringe"}, n : {2}]
  \cup [k : {"spc"}, n : {-1, 0, 1, 5, 255, 256}]
  \cup [k : {"str"}, v : StrNums]
  \cup [k : {"val"}, s : ValTexts]
  \cup [k : {"hex", "oct"}, n : IntArgs] \cup [k : {"hexf"}, n : {5, 131069, 131072, -131073}]
  \cup [k : {"cat"}, s : Strs \cup Longs, t : Strs]
  \cup [k : {"catlen"}, s : Longs, t : {<<65>>, <<>>}]
  \cup [k : {"cmp"}, op : RelOps, s : Strs, t : Strs]
  \cup [k : {"tm"}, f : {"LEN", "ASC", "LEFT$", "VAL", "STR$", "CHR$", "INSTR"}]

ExprOf(cs) ==
  CASE cs.k = "len" -> Fn("LEN", <<VS>>)
    [] cs.k = "asc" -> Fn("ASC", <<VS>>)
    [] cs.k = "chrasc" -> Fn("CHR$", <<Fn("ASC", <<VS>>)>>)
    [] cs.k = "left" -> Fn("LEFT$", <<VS, NumX(cs.n)>>)
    [] cs.k = "right" -> Fn("RIGHT$", <<VS, NumX(cs.n)>>)
    [] cs.k = "lefth" -> Fn("LEFT$", <<VS, Half>>)
    [] cs.k = "midh" -> Fn("MID$", <<VS, Half, Half>>)
    [] cs.k = "mid2" -> Fn("MID$", <<VS, NumX(cs.p)>>)
    [] cs.k = "mid3" -> Fn("MID$", <<VS, NumX(cs.p), NumX(cs.n)>>)
    [] cs.k = "instr2" -> Fn("INSTR", <<VS, VT>>)
    [] cs.k = "instr3" -> Fn("INSTR", <<NumX(cs.p), VS, VT>>)
    [] cs.k = "chr" -> Fn("CHR$", <<NumX(cs.n)>>)
    [] cs.k = "chrbig" -> Fn("CHR$", <<Lit(MkF("S", cs.n, 0))>>)
    [] cs.k = "string" -> Fn("STRING$", <<NumX(cs.n), LSt(<<cs.ch, 66>>)>>)
    [] cs.k = "stringn" -> Fn("STRING$", <<NumX(cs.n), NumX(cs.ch)>>)
    [] cs.k = "stringe" -> Fn("STRING$", <<NumX(cs.n), LSt(<<>>)>>)
    [] cs.k = "spc" -> Fn("SPC", <<NumX(cs.n)>>)
    [] cs.k = "str" -> Fn("STR$", <<[k |-> "var", l |-> "V", id |-> "V", sfx |-> CASE cs.v.t = "I" -> "%" [] cs.v.t = "S" -> "!" [] OTHER -> "#"]>>)
    [] cs.k = "val" -> Fn("VAL", <<VS>>)
    [] cs.k = "hex" -> Fn("HEX$", <<[k |-> "var", l |-> "N", id |-> "N", sfx |-> "%"]>>)
    [] cs.k = "oct" -> Fn("OCT$", <<[k |-> "var", l |-> "N", id |-> "N", sfx |-> "%"]>>)
    [] cs.k = "hexf" -> Fn("HEX$", <<Lit(MkF("S", cs.n, 2))>>)
    [] cs.k = "cat" -> Bin("add", VS, VT)
    [] cs.k = "catlen" -> Fn("LEN", <<Bin("add", VS, VT)>>)
    [] cs.k = "cmp" -> Bin(cs.op, VS, VT)
    [] cs.k = "tm" -> (CASE cs.f \in {"LEN", "ASC", "VAL"} -> Fn(cs.f, <<LI(1)>>)
                         [] cs.f = "LEFT$" -> Fn("LEFT$", <<LI(1), LI(1)>>)
                         [] cs.f = "STR$" -> Fn("STR$", <<LSt(<<65>>)>>)
                         [] cs.f = "CHR$" -> Fn("CHR$", <<LSt(<<65>>)>>)
                         [] cs.f = "INSTR" -> Fn("INSTR", <<LSt(<<65>>), LI(1)>>))

Bind(l, sfx, v) == [l |-> l, id |-> l, sfx |-> sfx, v |-> v]
EnvOf(cs) ==
  (IF "s" \in DOMAIN cs THEN <<Bind("S", "$", MkStr(cs.s))>> ELSE <<>>)
  \o (IF "t" \in DOMAIN cs THEN <<Bind("T", "$", MkStr(cs.t))>> ELSE <<>>)
  \o (IF cs.k = "str" THEN <<Bind("V", CASE cs.v.t = "I" -> "%" [] cs.v.t = "S" -> "!" [] OTHER -> "#", cs.v)>> ELSE <<>>)
  \o (IF cs.k \in {"hex", "oct"} THEN <<Bind("N", "%", MkI(cs.n))>> ELSE <<>>)

VarsOf(env) == [key \in {Key(env[i].l, env[i].id, env[i].sfx, <<>>) : i \in 1..Len(env)} |->
                  LET i == CHOOSE i \in 1..Len(env) : Key(env[i].l, env[i].id, env[i].sfx, <<>>) = key
                  IN env[i].v]
St(env) == [vars |-> VarsOf(env), dims |-> [x \in {} |-> <<>>], deft |-> DeftInit,
            fns |-> [x \in {} |-> 0], col |-> 0]
Expected(cs) == EvalTop(ExprOf(cs), St(EnvOf(cs))).v

Init == c \in Cases
Next == UNCHANGED c

\* ---- laws of the specification's string operators
At(s, i, t) == i >= 1 /\ i + Len(t) - 1 <= Len(s) /\ SubSeq(s, i, i + Len(t) - 1) = t
Laws ==
  LET x == Expected(c) IN
  /\ c.k \in {"left", "right", "mid2", "mid3"} /\ IsStr(x) => Len(x.s) <= Len(c.s)
  /\ c.k = "left" /\ c.n >= 0 => x = MkStr(SubSeq(c.s, 1, Min(c.n, Len(c.s))))
  /\ c.k = "right" /\ c.n >= 0 => x = MkStr(SubSeq(c.s, Len(c.s) - Min(c.n, Len(c.s)) + 1, Len(c.s)))
  /\ c.k = "mid3" /\ c.p >= 1 /\ c.n >= 0 =>
        x = MkStr(IF c.p > Len(c.s) THEN <<>> ELSE SubSeq(c.s, c.p, Min(Len(c.s), c.p + c.n - 1)))
  /\ c.k = "instr2" /\ x.t = "I" /\ x.n > 0 => At(c.s, x.n, c.t) /\ \A i \in 1..(x.n - 1) : ~At(c.s, i, c.t)
  /\ c.k = "instr2" /\ x.t = "I" /\ x.n = 0 /\ c.t # <<>> => \A i \in 1..Len(c.s) : ~At(c.s, i, c.t)
  /\ c.k = "len" => x = MkI(Len(c.s))
  /\ c.k = "cat" /\ IsStr(x) => x.s = c.s \o c.t
  /\ c.k = "cmp" => x \in {MkI(0), MkI(-1)}
  /\ c.k = "tm" => x = Err(ETypeMismatch)

NonTrivial(cs) == LET x == Expected(cs) IN IsErr(x) \/ (IsStr(x) /\ x.s # <<>>) \/ (x.t = "I" /\ x.n # 0)
HasP(cs) == cs.k \in {"str", "hex", "oct", "left", "right", "mid2", "mid3", "chr", "string", "spc", "cat"}
Emit == PrintT(ToJson([R |-> "expr", c |-> c, env |-> EnvOf(c), e |-> ExprOf(c), store |-> FALSE,
                       x |-> Expected(c), nt |-> NonTrivial(c),
                       hasp |-> (HasP(c) /\ IsStr(Expected(c))), p |-> (IF IsStr(Expected(c)) THEN Expected(c).s ELSE <<>>)]))
=============================================================================
