------------------------------ MODULE MC_C07 ------------------------------
(***************************************************************************)
(* C07: string operations work on characters, as documented, within 0..255. *)
(* TLC enumerates every function x argument combination of the grid below   *)
(* on the specification's string operators (code-point sequences), checks   *)
(* laws relating them on the specification itself, and prints each case     *)
(* with the expected value / error for replay against the real VM.          *)
(***************************************************************************)
EXTENDS BasicExpr, Json
CONSTANTS Wide

VARIABLE c

Lit(v) == [k |-> "lit", v |-> v]
LI(n) == Lit(MkI(n))
LSt(s) == Lit(MkStr(s))
Fn(f, args) == [k |-> "call", f |-> f, args |-> args]
Bin(op, a, b) == [k |-> "bin", op |-> op, a |-> a, b |-> b]
VS == [k |-> "var", l |-> "S", id |-> "S", sfx |-> "$"]
VT == [k |-> "var", l |-> "T", id |-> "T", sfx |-> "$"]

Run(ch, n) == [i \in 1..n |-> ch]
Strs == { <<>>, <<65>>, <<65, 66>>, <<65, 66, 65>>, <<233>>, <<97, 233>>, <<233, 97, 128512, 98>>, <<66, 65, 66, 65, 66>> }
\* first characters around the 16-bit limits (ASC's result type changes there)
AscStrs == { <<32767>>, <<32768, 65>>, <<35486>>, <<65535>>, <<65536>>, <<128512, 65>> }
Longs == { Run(120, 254), Run(120, 255), Run(233, 255) }
Pats == { <<>>, <<65>>, <<66, 65>>, <<233>>, <<128512, 98>>, <<90>>, <<65, 66, 65, 66>> }
Nums == { -1, 0, 1, 2, 3, 4, 5, 255, 256, 32767 } 
NumX(n) == IF n < 0 THEN [k |-> "un", op |-> "neg", a |-> LI(-n)] ELSE LI(n)
Half == Lit(MkF("S", 5, 1))          \* 2.5
Codes == { -1, 0, 65, 233, 255, 256, 8364, 32767 }
BigCodes == { 128512, 55296, 57343, 1114111, 1114112 }   \* as Singles
IntArgs == { -32768, -32767, -256, -1, 0, 1, 9, 10, 15, 16, 255, 256, 4095, 32767 }
ValTexts == { <<49, 50, 65, 66>>, <<32, 45, 51, 46, 53, 69, 49, 88>>, <<38, 72, 49, 70>>, <<>>, <<69>>, <<49, 68, 50>>,
              <<38, 49, 55>>, <<46, 53>>, <<45>>, <<49, 46>>, <<50, 53, 54>>, <<32, 55, 32>>, <<49, 69, 45, 50>>,
              <<51, 50, 55, 54, 56>>, <<65, 49>>, <<38, 72>>, <<38, 72, 68>>, <<38, 104, 49, 100>>, <<38, 72, 68, 69>>, <<49, 50, 51, 52, 53, 54, 55>>, <<48, 46, 49, 50, 53>> }
StrNums == { MkI(0), MkI(5), MkI(-12), MkI(32767), MkI(-32768), MkF("S", 5, 1), MkF("S", -3, 2), MkF("D", 1, 3), MkF("S", 1234567, 0) }

SmallNums == {0, 1, 2, 3, 4, 5, 6}
NumVar(v) == [k |-> "var", l |-> "V", id |-> "V", sfx |-> CASE v.t = "I" -> "%" [] v.t = "S" -> "!" [] OTHER -> "#"]
NV == [k |-> "var", l |-> "N", id |-> "N", sfx |-> "%"]

Cases ==
  [k : {"len", "asc"}, s : Strs \cup Longs \cup AscStrs]
  \cup [k : {"chrasc"}, s : AscStrs]
  \cup [k : {"left", "right"}, s : Strs \cup {Run(120, 255)}, n : Nums]
  \cup [k : {"lefth", "midh"}, s : Strs]
  \cup [k : {"mid2"}, s : Strs, p : Nums]
  \cup [k : {"mid3"}, s : Strs, p : Nums \ {32767}, n : Nums \ {32767, 256}]
  \cup [k : {"instr2"}, s : Strs, t : Pats]
  \cup [k : {"instr3"}, s : Strs, t : Pats, p : {0, 1, 2, 3, 4, 5, 6}]
  \cup [k : {"chr"}, n : Codes] \cup [k : {"chrbig"}, n : BigCodes]
  \cup [k : {"string"}, n : {-1, 0, 1, 3, 255, 256}, ch : {65, 233, 128512}]
  \cup [k : {"stringn"}, n : {0, 2, 255}, ch : {65, 233, -1, 256}]
  \cup [k : {"stringe"}, n : {2}]
  \cup [k : {"spc"}, n : {-1, 0, 1, 5, 255, 256}]
  \cup [k : {"str"}, v : StrNums]
  \cup [k : {"val"}, s : ValTexts]
  \cup [k : {"hex", "oct"}, n : IntArgs] \cup [k : {"hexf"}, n : {5, 131069, 131072, -131073}]
  \cup [k : {"cat"}, s : Strs \cup Longs, t : Strs]
  \cup [k : {"catlen"}, s : Longs, t : {<<65>>, <<>>}]
  \cup [k : {"cmp"}, op : RelOps, s : Strs, t : Strs]
  \cup [k : {"tm"}, f : {"LEN", "ASC", "LEFT$", "VAL", "STR$", "CHR$", "INSTR"}]
  \* compositions: several string temporaries on the stack at once, results fed into other operators
  \cup [k : {"split"}, s : Strs, n : SmallNums]                          \* LEFT$(S,n) + MID$(S,n+1)
  \cup [k : {"splitr"}, s : Strs, n : SmallNums]                         \* LEN(LEFT$(S,n)) + LEN(RIGHT$(S,LEN(S)-..))
  \cup [k : {"lr"}, s : Strs, n : SmallNums, p : SmallNums]              \* LEFT$(RIGHT$(S,n),p)
  \cup [k : {"midcat"}, s : Strs, t : Pats, p : SmallNums \ {0}, n : {0, 1, 3}]  \* MID$(S+T,p,n)
  \cup [k : {"instrmid"}, s : Strs, t : Pats, p : SmallNums \ {0}]    \* INSTR(MID$(S,p),T)
  \cup [k : {"ascmid"}, s : Strs, p : SmallNums \ {0}]                 \* ASC(MID$(S,p,1))
  \cup [k : {"chrs"}, s : Strs, p : SmallNums \ {0}]                   \* CHR$(ASC(MID$(S,p,1)))=MID$(S,p,1)
  \cup [k : {"lenstring"}, s : Strs \ {<<>>}, n : {0, 1, 3, 255}]       \* LEN(STRING$(n,S)+T)
  \cup [k : {"valstr"}, v : StrNums]                                    \* VAL(STR$(V))
  \cup [k : {"valhex"}, n : IntArgs]                                    \* VAL("&H"+HEX$(N%))
  \cup [k : {"valoct"}, n : IntArgs]                                    \* VAL("&"+OCT$(N%))
  \cup [k : {"cmpcat"}, op : RelOps, s : Strs, t : Pats]                \* (S+T) op (T+S)

ExprOf(cs) ==
  CASE cs.k = "len" -> Fn("LEN", <<VS>>)
    [] cs.k = "asc" -> Fn("ASC", <<VS>>)
    [] cs.k = "chrasc" -> Fn("CHR$", <<Fn("ASC", <<VS>>)>>)
    [] cs.k = "left" -> Fn("LEFT$", <<VS, NumX(cs.n)>>)
    [] cs.k = "right" -> Fn("RIGHT$", <<VS, NumX(cs.n)>>)
    [] cs.k = "lefth" -> Fn("LEFT$", <<VS, Half>>)
    [] cs.k = "midh" -> Fn("MID$", <<VS, Half, Half>>)
    [] cs.k = "mid2" -> Fn("MID$", <<VS, NumX(cs.p)>>)
    [] cs.k = "mid3" -> Fn("MID$", <<VS, NumX(cs.p), NumX(cs.n)>>)
    [] cs.k = "instr2" -> Fn("INSTR", <<VS, VT>>)
    [] cs.k = "instr3" -> Fn("INSTR", <<NumX(cs.p), VS, VT>>)
    [] cs.k = "chr" -> Fn("CHR$", <<NumX(cs.n)>>)
    [] cs.k = "chrbig" -> Fn("CHR$", <<Lit(MkF("S", cs.n, 0))>>)
    [] cs.k = "string" -> Fn("STRING$", <<NumX(cs.n), LSt(<<cs.ch, 66>>)>>)
    [] cs.k = "stringn" -> Fn("STRING$", <<NumX(cs.n), NumX(cs.ch)>>)
    [] cs.k = "stringe" -> Fn("STRING$", <<NumX(cs.n), LSt(<<>>)>>)
    [] cs.k = "spc" -> Fn("SPC", <<NumX(cs.n)>>)
    [] cs.k = "str" -> Fn("STR$", <<[k |-> "var", l |-> "V", id |-> "V", sfx |-> CASE cs.v.t = "I" -> "%" [] cs.v.t = "S" -> "!" [] OTHER -> "#"]>>)
    [] cs.k = "val" -> Fn("VAL", <<VS>>)
    [] cs.k = "hex" -> Fn("HEX$", <<[k |-> "var", l |-> "N", id |-> "N", sfx |-> "%"]>>)
    [] cs.k = "oct" -> Fn("OCT$", <<[k |-> "var", l |-> "N", id |-> "N", sfx |-> "%"]>>)
    [] cs.k = "hexf" -> Fn("HEX$", <<Lit(MkF("S", cs.n, 2))>>)
    [] cs.k = "cat" -> Bin("add", VS, VT)
    [] cs.k = "catlen" -> Fn("LEN", <<Bin("add", VS, VT)>>)
    [] cs.k = "cmp" -> Bin(cs.op, VS, VT)
    [] cs.k = "split" -> Bin("add", Fn("LEFT$", <<VS, LI(cs.n)>>), Fn("MID$", <<VS, LI(cs.n + 1)>>))
    [] cs.k = "splitr" -> Bin("add", Fn("LEN", <<Fn("LEFT$", <<VS, LI(cs.n)>>)>>),
                                     Fn("LEN", <<Fn("RIGHT$", <<VS, Bin("sub", Fn("LEN", <<VS>>), Fn("LEN", <<Fn("LEFT$", <<VS, LI(cs.n)>>)>>))>>)>>))
    [] cs.k = "lr" -> Fn("LEFT$", <<Fn("RIGHT$", <<VS, LI(cs.n)>>), LI(cs.p)>>)
    [] cs.k = "midcat" -> Fn("MID$", <<Bin("add", VS, VT), LI(cs.p), LI(cs.n)>>)
    [] cs.k = "instrmid" -> Fn("INSTR", <<Fn("MID$", <<VS, LI(cs.p)>>), VT>>)
    [] cs.k = "ascmid" -> Fn("ASC", <<Fn("MID$", <<VS, LI(cs.p), LI(1)>>)>>)
    [] cs.k = "chrs" -> Bin("eq", Fn("CHR$", <<Fn("ASC", <<Fn("MID$", <<VS, LI(cs.p), LI(1)>>)>>)>>), Fn("MID$", <<VS, LI(cs.p), LI(1)>>))
    [] cs.k = "lenstring" -> Fn("LEN", <<Bin("add", Fn("STRING$", <<LI(cs.n), VS>>), VS)>>)
    [] cs.k = "valstr" -> Fn("VAL", <<Fn("STR$", <<NumVar(cs.v)>>)>>)
    [] cs.k = "valhex" -> Fn("VAL", <<Bin("add", LSt(<<38, 72>>), Fn("HEX$", <<NV>>))>>)
    [] cs.k = "valoct" -> Fn("VAL", <<Bin("add", LSt(<<38>>), Fn("OCT$", <<NV>>))>>)
    [] cs.k = "cmpcat" -> Bin(cs.op, Bin("add", VS, VT), Bin("add", VT, VS))
    [] cs.k = "tm" -> (CASE cs.f \in {"LEN", "ASC", "VAL"} -> Fn(cs.f, <<LI(1)>>)
                         [] cs.f = "LEFT$" -> Fn("LEFT$", <<LI(1), LI(1)>>)
                         [] cs.f = "STR$" -> Fn("STR$", <<LSt(<<65>>)>>)
                         [] cs.f = "CHR$" -> Fn("CHR$", <<LSt(<<65>>)>>)
                         [] cs.f = "INSTR" -> Fn("INSTR", <<LSt(<<65>>), LI(1)>>))

Bind(l, sfx, v) == [l |-> l, id |-> l, sfx |-> sfx, v |-> v]
EnvOf(cs) ==
  (IF "s" \in DOMAIN cs THEN <<Bind("S", "$", MkStr(cs.s))>> ELSE <<>>)
  \o (IF "t" \in DOMAIN cs THEN <<Bind("T", "$", MkStr(cs.t))>> ELSE <<>>)
  \o (IF cs.k \in {"str", "valstr"} THEN <<Bind("V", CASE cs.v.t = "I" -> "%" [] cs.v.t = "S" -> "!" [] OTHER -> "#", cs.v)>> ELSE <<>>)
  \o (IF cs.k \in {"hex", "oct", "valhex", "valoct"} THEN <<Bind("N", "%", MkI(cs.n))>> ELSE <<>>)

VarsOf(env) == [key \in {Key(env[i].l, env[i].id, env[i].sfx, <<>>) : i \in 1..Len(env)} |->
                  LET i == CHOOSE i \in 1..Len(env) : Key(env[i].l, env[i].id, env[i].sfx, <<>>) = key
                  IN env[i].v]
St(env) == [vars |-> VarsOf(env), dims |-> [x \in {} |-> <<>>], deft |-> DeftInit,
            fns |-> [x \in {} |-> 0], col |-> 0]
Expected(cs) == EvalTop(ExprOf(cs), St(EnvOf(cs))).v

Init == c \in Cases
Next == UNCHANGED c

\* ---- laws of the specification's string operators
At(s, i, t) == i >= 1 /\ i + Len(t) - 1 <= Len(s) /\ SubSeq(s, i, i + Len(t) - 1) = t
Laws ==
  LET x == Expected(c) IN
  /\ c.k \in {"left", "right", "mid2", "mid3"} /\ IsStr(x) => Len(x.s) <= Len(c.s)
  /\ c.k = "left" /\ c.n >= 0 => x = MkStr(SubSeq(c.s, 1, Min(c.n, Len(c.s))))
  /\ c.k = "right" /\ c.n >= 0 => x = MkStr(SubSeq(c.s, Len(c.s) - Min(c.n, Len(c.s)) + 1, Len(c.s)))
  /\ c.k = "mid3" /\ c.p >= 1 /\ c.n >= 0 =>
        x = MkStr(IF c.p > Len(c.s) THEN <<>> ELSE SubSeq(c.s, c.p, Min(Len(c.s), c.p + c.n - 1)))
  /\ c.k = "instr2" /\ x.t = "I" /\ x.n > 0 => At(c.s, x.n, c.t) /\ \A i \in 1..(x.n - 1) : ~At(c.s, i, c.t)
  /\ c.k = "instr2" /\ x.t = "I" /\ x.n = 0 /\ c.t # <<>> => \A i \in 1..Len(c.s) : ~At(c.s, i, c.t)
  /\ c.k = "len" => x = MkI(Len(c.s))
  /\ c.k = "cat" /\ IsStr(x) => x.s = c.s \o c.t
  /\ c.k = "cmp" => x \in {MkI(0), MkI(-1)}
  /\ c.k = "tm" => x = Err(ETypeMismatch)
  \* laws of the compositions
  /\ c.k = "split" => x = MkStr(c.s)
  /\ c.k = "splitr" => x = MkI(Len(c.s))
  /\ c.k = "lr" => x = MkStr(LET r == SubSeq(c.s, Len(c.s) - Min(c.n, Len(c.s)) + 1, Len(c.s)) IN SubSeq(r, 1, Min(c.p, Len(r))))
  /\ c.k = "midcat" => x = MkStr(LET u == c.s \o c.t IN IF c.p > Len(u) THEN <<>> ELSE SubSeq(u, c.p, Min(Len(u), c.p + c.n - 1)))
  /\ c.k = "instrmid" /\ x.t = "I" /\ x.n > 0 => At(c.s, x.n + c.p - 1, c.t)
  /\ c.k = "ascmid" => IF c.p <= Len(c.s) THEN x.n = c.s[c.p] /\ IsNum(x) ELSE IsErr(x)
  /\ c.k = "chrs" /\ c.p <= Len(c.s) => x = MkI(-1)
  /\ c.k = "lenstring" => x = MkI(c.n + Len(c.s))
  /\ c.k = "valstr" /\ c.v.x /\ c.v.n > -1000000 /\ c.v.n < 1000000 =>   \* (a Single prints 6 digits)
        IsNum(x) /\ CmpNum(x, c.v) = 0
  /\ c.k \in {"valhex", "valoct"} /\ c.n >= 0 => x = MkI(c.n)
  /\ c.k = "cmpcat" => x \in {MkI(0), MkI(-1)}

NonTrivial(cs) == LET x == Expected(cs) IN IsErr(x) \/ (IsStr(x) /\ x.s # <<>>) \/ (x.t = "I" /\ x.n # 0)
HasP(cs) == cs.k \in {"str", "hex", "oct", "left", "right", "mid2", "mid3", "chr", "string", "spc", "cat"}
Emit == PrintT(ToJson([R |-> "expr", c |-> c, env |-> EnvOf(c), e |-> ExprOf(c), store |-> FALSE,
                       x |-> Expected(c), nt |-> NonTrivial(c),
                       hasp |-> (HasP(c) /\ IsStr(Expected(c))), p |-> (IF IsStr(Expected(c)) THEN Expected(c).s ELSE <<>>)]))
=============================================================================
