CONSTANT Wide = FALSE
INIT Init
NEXT Next
INVARIANT Shape
INVARIANT Emit
CHECK_DEADLOCK FALSE
