------------------------------ MODULE MC_C08 ------------------------------
(***************************************************************************)
(* C08: 16-bit Integer arithmetic is always checked.                        *)
(* TLC enumerates every case of the bounded grid, checks the arithmetic     *)
(* laws on the specification's own operators (so the oracle is known to be  *)
(* the mathematical one), and prints one REPLAY line per case with the      *)
(* expected value or error; the harness replays each against the real VM.   *)
(***************************************************************************)
EXTENDS BasicExpr, Json
CONSTANTS Full      \* TRUE: all 65536 values for unary operators

VARIABLE c

VA == [k |-> "var", l |-> "A", id |-> "A", sfx |-> "%"]
VB == [k |-> "var", l |-> "B", id |-> "B", sfx |-> "%"]
VF == [k |-> "var", l |-> "F", id |-> "F", sfx |-> "#"]
Lit(v) == [k |-> "lit", v |-> v]
Bin(op, a, b) == [k |-> "bin", op |-> op, a |-> a, b |-> b]
Un(op, a) == [k |-> "un", op |-> op, a |-> a]
Fn(f, args) == [k |-> "call", f |-> f, args |-> args]

Near(x, r) == {y \in (x - r)..(x + r) : InInt(y)}
Grid == Near(-32768, 2) \cup Near(-16384, 1) \cup Near(-256, 1) \cup Near(-181, 1) \cup Near(-128, 0)
        \cup Near(0, 3) \cup Near(7, 0) \cup Near(15, 1) \cup Near(128, 0) \cup Near(181, 1) \cup Near(255, 1)
        \cup Near(16384, 1) \cup Near(32767, 2) \cup {-10, 10, 100, -100, 1000, 12345, -12345}
UnRange == IF Full THEN MinInt..MaxInt
           ELSE Near(-32768, 300) \cup Near(0, 300) \cup Near(32767, 300) \cup {x \in MinInt..MaxInt : x % 97 = 0}
UnForms == {"neg", "abs", "not", "sgn", "cintcsng", "negneg", "subzero"}
BinForms == {"add", "sub", "mul", "idiv", "mod", "pow"}
\* floating values q/4 around the conversion limits, reaching Integer contexts
Quarters == UNION {{4 * x + r : r \in -8..8} : x \in {-32769, -32768, 0, 32767, 32768}}
ConvForms == {"let", "cint", "idiv1", "mod", "and", "not", "hex"}
\* Doubles a 1024th away from the limits: not representable as Singles
Fine == UNION {{1024 * x + r : r \in {-1023, -1, 1, 1023}} : x \in {-32769, -32768, 32767, 32768}}

Cases == [k : {"un"}, f : UnForms, a : UnRange]
         \cup [k : {"bin"}, f : BinForms, a : Grid, b : Grid]
         \cup [k : {"conv"}, f : ConvForms, q : Quarters]
         \cup [k : {"fine"}, f : {"let", "cint", "idiv1", "and"}, q : Fine]

ExprOf(cs) ==
  CASE cs.k = "un" ->
         (CASE cs.f = "neg" -> Un("neg", VA)
           [] cs.f = "abs" -> Fn("ABS", <<VA>>)
           [] cs.f = "not" -> Un("not", VA)
           [] cs.f = "sgn" -> Fn("SGN", <<VA>>)
           [] cs.f = "cintcsng" -> Fn("CINT", <<Fn("CSNG", <<VA>>)>>)
           [] cs.f = "negneg" -> Un("neg", [k |-> "par", a |-> Un("neg", VA)])
           [] cs.f = "subzero" -> Bin("sub", Lit(MkI(0)), VA))
    [] cs.k = "bin" -> Bin(cs.f, VA, VB)
    [] cs.k \in {"conv", "fine"} ->
         (CASE cs.f = "let"  -> VF
           [] cs.f = "cint" -> Fn("CINT", <<VF>>)
           [] cs.f = "idiv1" -> Bin("idiv", VF, Lit(MkI(1)))
           [] cs.f = "mod"  -> Bin("mod", VF, Lit(MkI(7)))
           [] cs.f = "and"  -> Bin("and", VF, Lit(MkI(-1)))
           [] cs.f = "not"  -> Un("not", VF)
           [] cs.f = "hex"  -> Fn("HEX$", <<VF>>))

\* the environment of the case: variables set before the expression is evaluated
EnvOf(cs) ==
  CASE cs.k = "un"  -> <<[l |-> "A", id |-> "A", sfx |-> "%", v |-> MkI(cs.a)]>>
    [] cs.k = "bin" -> <<[l |-> "A", id |-> "A", sfx |-> "%", v |-> MkI(cs.a)],
                         [l |-> "B", id |-> "B", sfx |-> "%", v |-> MkI(cs.b)]>>
    [] cs.k = "conv" -> <<[l |-> "F", id |-> "F", sfx |-> "#", v |-> MkF("D", cs.q, 2)]>>
    [] cs.k = "fine" -> <<[l |-> "F", id |-> "F", sfx |-> "#", v |-> MkF("D", cs.q, 10)]>>

VarsOf(env) == [key \in {Key(env[i].l, env[i].id, env[i].sfx, <<>>) : i \in 1..Len(env)} |->
                  LET i == CHOOSE i \in 1..Len(env) : Key(env[i].l, env[i].id, env[i].sfx, <<>>) = key
                  IN env[i].v]
St(env) == [vars |-> VarsOf(env), dims |-> [x \in {} |-> <<>>], deft |-> DeftInit,
            fns |-> [x \in {} |-> 0], col |-> 0]

\* "let"/"sub": the value is assigned to an Integer variable, then read back
Expected(cs) ==
  IF cs.k = "conv" /\ cs.f = "let" THEN Assign("I", MkF("D", cs.q, 2))
  ELSE IF cs.k = "fine" /\ cs.f = "let" THEN Assign("I", MkF("D", cs.q, 10))
  ELSE EvalTop(ExprOf(cs), St(EnvOf(cs))).v

Init == c \in Cases
Next == UNCHANGED c

\* ---- the property on the specification ---------------------------------
InRangeOrError(v) == (v.t = "I" /\ InInt(v.n)) \/ (v.t = "E" /\ v.n \in {EOverflow, EDivZero})

Math(cs) ==         \* the mathematically exact result, as an unbounded integer (or "none")
  CASE cs.k = "un" /\ cs.f \in {"neg", "subzero"} -> -cs.a
    [] cs.k = "un" /\ cs.f = "abs" -> Abs(cs.a)
    [] cs.k = "un" /\ cs.f = "negneg" -> cs.a
    [] cs.k = "un" /\ cs.f = "cintcsng" -> cs.a
    [] cs.k = "bin" /\ cs.f = "add" -> cs.a + cs.b
    [] cs.k = "bin" /\ cs.f = "sub" -> cs.a - cs.b
    [] cs.k = "bin" /\ cs.f = "mul" -> cs.a * cs.b
    [] OTHER -> 0

Checked ==
  LET x == Expected(c) IN
  /\ c.k \in {"un", "bin"} /\ c.f \notin {"not", "sgn"} /\ ~(c.f = "pow" /\ c.b < 0) => InRangeOrError(x)
  /\ (c.k = "un" /\ c.f \in {"neg", "subzero", "abs", "cintcsng"}) \/ (c.k = "bin" /\ c.f \in {"add", "sub", "mul"})
       => IF InInt(Math(c)) THEN x = MkI(Math(c)) ELSE x = Err(EOverflow)
  \* negneg: inner negation overflows exactly at -32768
  /\ c.k = "un" /\ c.f = "negneg" => IF c.a = MinInt THEN x = Err(EOverflow) ELSE x = MkI(c.a)
  \* division: a = b*q + r, |r| < |b|, r has the sign of a (or is 0)
  /\ c.k = "bin" /\ c.f \in {"idiv", "mod"} =>
       IF c.b = 0 THEN x = Err(EDivZero)
       ELSE LET q == IDiv16(c.a, c.b)  r == Mod16(c.a, c.b) IN
            /\ r.t = "I" /\ Abs(r.n) < Abs(c.b) /\ (r.n = 0 \/ Sgn(r.n) = Sgn(c.a))
            /\ IF c.a = MinInt /\ c.b = -1 THEN q = Err(EOverflow)
               ELSE q.t = "I" /\ c.a = c.b * q.n + r.n
  /\ c.k = "bin" /\ c.f = "pow" /\ c.b >= 0 /\ c.b <= 2 =>
       LET m == IF c.b = 0 THEN 1 ELSE IF c.b = 1 THEN c.a ELSE c.a * c.a IN
       IF InInt(m) THEN x = MkI(m) ELSE x = Err(EOverflow)
  /\ c.k = "bin" /\ c.f = "pow" /\ c.b < 0 => x.t \in {"S", "?"}
  \* conversions: floor, then range check
  /\ c.k = "conv" /\ c.f \in {"let", "cint", "idiv1", "and"} =>
       LET fl == c.q \div 4 IN IF InInt(fl) THEN x = MkI(fl) ELSE x = Err(EOverflow)
  /\ c.k = "fine" =>
       LET fl == c.q \div 1024 IN IF InInt(fl) THEN x = MkI(fl) ELSE x = Err(EOverflow)

\* a case is non-trivial when it ends in an error, or touches a limit of the 16-bit range
NonTrivial(cs) ==
  LET x == Expected(cs) IN
  \/ IsErr(x)
  \/ (x.t = "I" /\ (x.n <= -32767 \/ x.n >= 32766))
  \/ (cs.k \in {"un", "bin"} /\ cs.a \in {MinInt, MaxInt})
  \/ (cs.k = "bin" /\ cs.b \in {MinInt, MaxInt, 0, -1})
  \/ cs.k = "fine"

Emit == PrintT(ToJson([R |-> "expr", c |-> c, env |-> EnvOf(c), e |-> ExprOf(c),
                       store |-> (c.k \in {"conv", "fine"} /\ c.f = "let"), x |-> Expected(c),
                       nt |-> NonTrivial(c)]))
=============================================================================
