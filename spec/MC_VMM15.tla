------------------------------ MODULE MC_VMM15 ------------------------------
(***************************************************************************)
(* The refinement BasicVM => BasicMachine over the command menu of MC_C15:   *)
(* both machines are fed every command sequence up to the depth and must     *)
(* agree at every prompt.                                                    *)
(***************************************************************************)
EXTENDS MC_C15, VMRefine

CONSTANT VFuel
VARIABLE v
gvars == <<m, cmds, v>>

\* The open finding delete-full-range-is-bare (known_findings.json) shows here too: the implementation rejects
\* DELETE 0-65529 written with explicit operands like a bare DELETE, the manual-level machine deletes.
\* Those commands are not compared (the finding is reported by C15's trace validation, not here).
KnownDeleteAll(c) == c.k = "direct" /\ c.stmts[1].k = "delete" /\ c.stmts[1].a = 0 /\ c.stmts[1].b = 65529 /\ ~c.stmts[1].bare
VDo(vv, c) == IF c.k = "line" /\ c.n > MaxLine THEN VOom(vv, "line number")
              ELSE IF KnownDeleteAll(c) THEN VOom(vv, "known finding")
              ELSE VRunToWait(VApply(vv, NormCmd(c)), VFuel)

GInit == Init /\ v = InitV
GNext == \E c \in Menu :
           /\ Len(cmds) < Depth /\ m.mode = "ready" /\ v.wait = "stopped"
           /\ m' = Do(m, c, Fuel) /\ cmds' = Append(cmds, c)
           /\ v' = VDo(v, c)
GRefines == (m.mode # "oom" /\ v.wait # "oom") => Agree(m, v)
GView == <<m, v, Len(cmds)>>
=============================================================================
