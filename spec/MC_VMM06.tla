------------------------------ MODULE MC_VMM06 ------------------------------
(***************************************************************************)
(* The refinement BasicVM => BasicMachine over the command menu of MC_C06:   *)
(* both machines are fed every command sequence up to the depth and must     *)
(* agree at every prompt.                                                    *)
(***************************************************************************)
EXTENDS MC_C06, VMRefine

CONSTANT VFuel
VARIABLE v
gvars == <<m, cmds, v>>

VDo(vv, c) == IF c.k = "line" /\ c.n > MaxLine THEN VOom(vv, "line number") ELSE VRunToWait(VApply(vv, NormCmd(c)), VFuel)

GInit == Init /\ v = InitV
GNext == \E c \in Menu :
           /\ Len(cmds) < Depth /\ m.mode = "ready" /\ v.wait = "stopped"
           /\ m' = Do(m, c, Fuel) /\ cmds' = Append(cmds, c)
           /\ v' = VDo(v, c)
GRefines == (m.mode # "oom" /\ v.wait # "oom") => Agree(m, v)
GView == <<m, v, Len(cmds)>>
=============================================================================
