CONSTANT Limit = 100
CONSTANT Depth = 2
CONSTANT Fuel = 60
CONSTANT WithRenum = FALSE
INIT Init
NEXT Next
INVARIANT TypeOK
PROPERTY EditCancels
PROPERTY OnlyEditsEdit
VIEW View
CHECK_DEADLOCK FALSE
