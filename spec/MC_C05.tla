------------------------------ MODULE MC_C05 ------------------------------
(***************************************************************************)
(* C05: listing is faithful.  TLC enumerates every string up to MaxLen over *)
(* the lexically significant alphabet Sig, runs the model scanner on it     *)
(* (BasicLex), lists the tokens, scans the listed text again, and checks on *)
(* the model that the listed text is a fixed point and keeps the line's     *)
(* number and meaning (for the token sequences where that is meaningful).   *)
(* Every string is printed with the model's tokens and text; the harness    *)
(* feeds it to the real lexer / lister / parser and checks the property's   *)
(* own relations (same number, same parse or rejected in both, fixed point  *)
(* for lines that parse, literals preserved).                               *)
(***************************************************************************)
EXTENDS BasicLex, Json

CONSTANTS MaxLen, Sig

VARIABLE x

Init == x = <<>>
Next == Len(x) < MaxLen /\ \E c \in Sig : x' = Append(x, c)

L1 == Lex(x)
T1 == ShowL(L1)
L2 == Lex(T1)
T2 == ShowL(L2)
\* lines without unknown tokens: the lexer accepted every character
Clean(l) == \A i \in 1..Len(l.toks) : l.toks[i].k # "unk"
\* the listed text is a fixed point of listing, and re-entering it keeps number and meaning
\* (two relational operators in a row never parse; how they regroup when listed again is moot)
IsRel(t) == t.k = "op" /\ t.s \in {<<60>>, <<61>>, <<62>>, <<60, 61>>, <<62, 61>>, <<60, 62>>}
NoRelRel(l) == LET ts == SelectSeq(l.toks, LAMBDA t : t.k # "ws") IN
               \A i \in 1..(Len(ts) - 1) : ~(IsRel(ts[i]) /\ IsRel(ts[i + 1]))
ModelRoundTrip == (Clean(L1) /\ NoRelRel(L1)) => (T2 = T1 /\ L2.num = L1.num /\ Meaning(L2) = Meaning(L1))
Emit == PrintT(ToJson([R |-> "lex", x |-> x, mnum |-> L1.num, mtoks |-> L1.toks, mtext |-> T1]))
=============================================================================
