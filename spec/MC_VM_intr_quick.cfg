CONSTANTS
  Limit = 65535
  NLines = 2
  MaxSteps = 60
  MaxV = 300
  Tset = 1
  WithIntr = TRUE
  IntrWin = 300
INIT VInit
NEXT VNextA
INVARIANTS Refines NoRunWithErrors VTypeOK VVarsTyped Linked FramesAtLineStart SliceInvariant
CHECK_DEADLOCK FALSE
