CONSTANT Limit = 100
CONSTANT Depth = 3
CONSTANT Fuel = 120
CONSTANT VFuel = 4000
INIT GInit
NEXT GNext
INVARIANT GRefines
VIEW GView
CHECK_DEADLOCK FALSE
