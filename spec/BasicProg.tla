----------------------------- MODULE BasicProg -----------------------------
(***************************************************************************)
(* Program structure: normalisation of statements, positions, the static   *)
(* analysis the manual describes (WHILE/WEND pairing by source position,   *)
(* DATA in source order, references to line numbers, compile-time errors).  *)
(*                                                                          *)
(* A listing is a function  line number -> sequence of statements.          *)
(* A position is [ln, path]; ln = -1 is the direct line, ln = PastEnd is    *)
(* "after the last line".  path = <<i>> is statement i of the line;         *)
(* <<i, b, j>> is statement j of branch b (1 = THEN, 2 = ELSE) of the IF    *)
(* at <<i>>, and so on.  The THEN / ELSE lists run to the end of the line,  *)
(* so leaving any list leads to the next line.                              *)
(***************************************************************************)
EXTENDS BasicShow

PastEnd == -2
Direct  == -1

\* ---- normalisation: list-valued statements become sequences of single ones
RECURSIVE Norm(_), NormOne(_)
PrintItems(items, i) ==
  [j \in 1..Len(items) |->
     IF "sep" \in DOMAIN items[j]
     THEN (IF items[j].sep = "," THEN [k |-> "pzone"] ELSE [k |-> "pskip"])
     ELSE [k |-> "pitem", e |-> items[j].e]]
NormOne(s) ==
  CASE s.k = "print" ->
         LET its == PrintItems(s.items, 1)
             real == SelectSeq(its, LAMBDA x : x.k # "pskip")
             nl == Len(s.items) = 0 \/ "sep" \notin DOMAIN s.items[Len(s.items)]
         IN  IF nl THEN real \o <<[k |-> "pnl"]>> ELSE real
    [] s.k = "read"  -> [j \in 1..Len(s.vs) |-> [k |-> "read", v |-> s.vs[j]]]
    [] s.k = "dim"   -> [j \in 1..Len(s.vs) |-> [k |-> "dim", v |-> s.vs[j]]]
    [] s.k = "erase" -> [j \in 1..Len(s.vs) |-> [k |-> "erase", v |-> s.vs[j]]]
    [] s.k = "next"  -> IF Len(s.vs) = 0 THEN <<[k |-> "next", any |-> TRUE]>>
                        ELSE [j \in 1..Len(s.vs) |-> [k |-> "next", any |-> FALSE, v |-> s.vs[j]]]
    [] s.k = "if"    -> <<[k |-> "if", c |-> s.c, th |-> Norm(s.th), el |-> Norm(s.el)]>>
    \* FOR v = x TO y STEP z: first v is assigned x, then y and z are evaluated and the loop
    \* is entered: two steps, an interrupt may fall between them
    \* INPUT: the prompt / wait, then one step per variable taking its field of the reply (the
    \* implementation can be interrupted between two of them)
    [] s.k = "input" -> <<s>> \o [j \in 1..Len(s.vs) |-> [k |-> "infield", i |-> j, n |-> Len(s.vs), v |-> s.vs[j]]]
    [] s.k = "for"   -> <<[k |-> "for1", v |-> s.v, a |-> s.a],
                          [k |-> "for2", v |-> s.v, b |-> s.b, c |-> s.c]>>
    [] OTHER -> <<s>>
Norm(ss) == IF ss = <<>> THEN <<>> ELSE NormOne(Head(ss)) \o Norm(Tail(ss))

\* ---- positions
Pos(ln, path) == [ln |-> ln, path |-> path]
RECURSIVE ListAt(_, _), StmtAt(_, _)
ListAt(code, path) ==
  IF Len(path) = 1 THEN code
  ELSE LET s == code[path[1]] IN
       ListAt(IF path[2] = 1 THEN s.th ELSE s.el, SubSeq(path, 3, Len(path)))
StmtAt(code, path) == ListAt(code, path)[path[Len(path)]]
InList(code, path) == path[Len(path)] <= Len(ListAt(code, path))
Adv(p) == Pos(p.ln, [p.path EXCEPT ![Len(p.path)] = @ + 1])
Into(p, b) == Pos(p.ln, p.path \o <<b, 1>>)

Lines(lst) == DOMAIN lst
NextLine(lst, ln) ==
  LET later == {x \in DOMAIN lst : x > ln} IN
  IF later = {} THEN PastEnd ELSE CHOOSE x \in later : \A y \in later : x <= y
FirstLine(lst) == NextLine(lst, -1)

\* ---- source-order enumeration of statements
RECURSIVE FlatList(_, _, _, _)
FlatList(ln, ss, pre, i) ==
  IF i > Len(ss) THEN <<>>
  ELSE LET s == ss[i]
           inner == IF s.k = "if"
                    THEN FlatList(ln, s.th, pre \o <<i, 1>>, 1) \o FlatList(ln, s.el, pre \o <<i, 2>>, 1)
                    ELSE <<>>
       IN  <<[p |-> Pos(ln, pre \o <<i>>), s |-> s]>> \o inner \o FlatList(ln, ss, pre, i + 1)
RECURSIVE FlatFrom(_, _)
FlatFrom(lst, ln) == IF ln = PastEnd THEN <<>>
                     ELSE FlatList(ln, lst[ln], <<>>, 1) \o FlatFrom(lst, NextLine(lst, ln))
FlatProg(lst) == FlatFrom(lst, FirstLine(lst))
FlatDirect(code) == FlatList(Direct, code, <<>>, 1)

\* ---- WHILE / WEND pairing by source position
RECURSIVE PairUp(_, _, _, _, _)
\* flat, index, stack of indices of open WHILEs, map so far (set of pairs), errors so far
\* (an error is [code, idx]: idx = index in flat of the unmatched WHILE / WEND)
PairUp(flat, i, stack, pairs, errs) ==
  IF i > Len(flat)
  THEN [pairs |-> pairs,
        errs |-> errs \o [j \in 1..Len(stack) |-> [code |-> EWhileNoWend, idx |-> stack[Len(stack) + 1 - j]]]]
  ELSE LET s == flat[i].s IN
       IF s.k = "while" THEN PairUp(flat, i + 1, Append(stack, i), pairs, errs)
       ELSE IF s.k = "wend" THEN
         IF stack = <<>>
         THEN PairUp(flat, i + 1, stack, pairs, Append(errs, [code |-> EWendNoWhile, idx |-> i]))
         ELSE LET w == stack[Len(stack)] IN
              PairUp(flat, i + 1, SubSeq(stack, 1, Len(stack) - 1),
                     pairs \cup {<<flat[w].p, flat[i].p>>, <<flat[i].p, flat[w].p>>}, errs)
       ELSE PairUp(flat, i + 1, stack, pairs, errs)

\* ---- references to line numbers (in source order)
RefSeq(s) == CASE s.k \in {"goto", "gosub"} -> <<s.n>>
               [] s.k \in {"ongoto", "ongosub"} -> s.ns
               [] s.k \in {"restore", "run"} -> IF s.n >= 0 THEN <<s.n>> ELSE <<>>
               [] OTHER -> <<>>
Refs(s) == {RefSeq(s)[j] : j \in 1..Len(RefSeq(s))}

\* ---- DATA in source order
RECURSIVE DataOfFlat(_, _)
DataOfFlat(flat, i) == IF i > Len(flat) THEN <<>>
                       ELSE (IF flat[i].s.k = "data" THEN flat[i].s.vals ELSE <<>>) \o DataOfFlat(flat, i + 1)
RECURSIVE CountData(_, _, _)
\* number of DATA values in statements of lines < ln
CountData(flat, i, ln) ==
  IF i > Len(flat) \/ flat[i].p.ln >= ln THEN 0
  ELSE (IF flat[i].s.k = "data" THEN Len(flat[i].s.vals) ELSE 0) + CountData(flat, i + 1, ln)

\* ---- where a diagnostic points: a character range of the listed text of its line (C19)
\* the indices of the segments of a line that are line-number references / WHILE-WEND keywords
SelIdx(segs, P(_)) == LET I == {i \in 1..Len(segs) : P(segs[i])} IN
                      [j \in 1..Cardinality(I) |-> CHOOSE i \in I : Cardinality({x \in I : x < i}) = j - 1]
\* the j-th reference of line ln (in source order) and the j-th reference segment of its text
RECURSIVE RefsOfLine(_, _, _)
RefsOfLine(flat, i, ln) == IF i > Len(flat) THEN <<>>
                           ELSE (IF flat[i].p.ln = ln THEN RefSeq(flat[i].s) ELSE <<>>) \o RefsOfLine(flat, i + 1, ln)
\* rank of flat[i] among the WHILE / WEND statements of its own line
WRank(flat, i) == Cardinality({x \in 1..i : flat[x].p.ln = flat[i].p.ln /\ flat[x].s.k \in {"while", "wend"}})

\* ---- the static analysis of a compile unit
\* A line that does not parse is represented by the single statement [k |-> "bad", code].
\* When any line fails to parse only those errors are reported (the later phases are not
\* reached); otherwise unmatched WHILE/WEND and references to missing lines.
\* src: line number -> statements as entered (for the columns); c0 = -1: range not specified.
Analyze(flat, lines, src) ==
  LET bad  == SelectSeq(flat, LAMBDA x : x.s.k = "bad")
      pr   == PairUp(flat, 1, <<>>, {}, <<>>)
      lns  == {flat[i].p.ln : i \in 1..Len(flat)}
      segsOf == [ln \in lns |-> SegLine(ln, src[ln])]
      refErrs == UNION {
         LET segs == segsOf[ln]
             rs == RefsOfLine(flat, 1, ln)
             ix == SelIdx(segs, LAMBDA g : g.r >= 0)
         IN  {[code |-> EUndefLine, ln |-> ln, c0 |-> SegRange(segs, ix[j])[1], c1 |-> SegRange(segs, ix[j])[2]] :
                 j \in {j \in 1..Len(rs) : rs[j] \notin lines}} : ln \in lns}
      wErrs == {LET e == pr.errs[j]  ln == flat[e.idx].p.ln  segs == segsOf[ln]
                    ix == SelIdx(segs, LAMBDA g : g.w # "")
                    rg == SegRange(segs, ix[WRank(flat, e.idx)])
                IN [code |-> e.code, ln |-> ln, c0 |-> rg[1], c1 |-> rg[2]] : j \in 1..Len(pr.errs)}
  IN  [pairs |-> pr.pairs,
       perr  |-> IF bad # <<>> THEN {[code |-> bad[j].s.code, ln |-> bad[j].p.ln, c0 |-> -1, c1 |-> -1] : j \in 1..Len(bad)}
                 ELSE wErrs \cup refErrs,
       data  |-> DataOfFlat(flat, 1),
       hasdata |-> \E i \in 1..Len(flat) : flat[i].s.k = "data"]

Mate(pairs, p) == (CHOOSE pr \in pairs : pr[1] = p)[2]
=============================================================================
