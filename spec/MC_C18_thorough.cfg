CONSTANT Limit = 6
CONSTANT NLines = 3
CONSTANT MaxSteps = 40
CONSTANT Tset = 2
INIT Init
NEXT Next
INVARIANT TypeOK
INVARIANT VarsTyped
INVARIANT PoolBounded
INVARIANT ReadyClean
PROPERTY StmtNeutral
CHECK_DEADLOCK FALSE
