CONSTANT MaxLen = 4
CONSTANT Sig = {49, 57, 46, 69, 68, 101, 100, 65, 70, 71, 79, 84, 82, 77, 78, 36, 33, 35, 37, 38, 72, 34, 39, 63, 58, 59, 44, 40, 41, 43, 45, 42, 47, 92, 94, 60, 61, 62, 32, 233}
INIT Init
NEXT Next
INVARIANT ModelRoundTrip
INVARIANT Emit
CHECK_DEADLOCK FALSE
