CONSTANT Limit = 200
CONSTANT Set = "C09"
CONSTANT NLines = 4
CONSTANT Fuel = 80
CONSTANT Size = 2
INIT PInit
NEXT PNext
CHECK_DEADLOCK FALSE
CONSTANT VFuel = 2500
INVARIANT PRefines
INVARIANT PInside
