---------------------------- MODULE BasicShow ----------------------------
(***************************************************************************)
(* The listed text of a line: Show maps statement ASTs to the canonical     *)
(* source text the manual's listings use (upper case, one blank between     *)
(* word-like neighbours, none elsewhere), as sequences of code points.      *)
(* LIST must show exactly this text for a line entered in this spelling     *)
(* (C05: the listed text is a fixed point), RENUM must change nothing but   *)
(* the line numbers in it (C14), and compile-time diagnostics point into it *)
(* (C19).  Grouping is explicit in the AST ("par" nodes): Show never adds   *)
(* or removes parentheses.                                                  *)
(***************************************************************************)
EXTENDS BasicExpr

\* text constants as code points
T_PRINT == <<80,82,73,78,84>>     T_GOTO == <<71,79,84,79>>      T_GOSUB == <<71,79,83,85,66>>
T_RETURN == <<82,69,84,85,82,78>> T_ON == <<79,78>>              T_IF == <<73,70>>
T_THEN == <<84,72,69,78>>         T_ELSE == <<69,76,83,69>>      T_FOR == <<70,79,82>>
T_TO == <<84,79>>                 T_STEP == <<83,84,69,80>>      T_NEXT == <<78,69,88,84>>
T_WHILE == <<87,72,73,76,69>>     T_WEND == <<87,69,78,68>>      T_END == <<69,78,68>>
T_STOP == <<83,84,79,80>>         T_REM == <<82,69,77>>          T_DATA == <<68,65,84,65>>
T_READ == <<82,69,65,68>>         T_RESTORE == <<82,69,83,84,79,82,69>>
T_DIM == <<68,73,77>>             T_ERASE == <<69,82,65,83,69>>  T_DEF == <<68,69,70>>
T_SWAP == <<83,87,65,80>>         T_MID == <<77,73,68,36>>       T_INPUT == <<73,78,80,85,84>>
T_CLEAR == <<67,76,69,65,82>>     T_RUN == <<82,85,78>>          T_CONT == <<67,79,78,84>>
T_TRON == <<84,82,79,78>>         T_TROFF == <<84,82,79,70,70>>  T_NEW == <<78,69,87>>
T_CLS == <<67,76,83>>             T_DELETE == <<68,69,76,69,84,69>>  T_LIST == <<76,73,83,84>>
T_RENUM == <<82,69,78,85,77>>     T_LET == <<76,69,84>>          T_NOT == <<78,79,84>>
T_POS == <<80,79,83,40,48,41>>
T_DEFINT == <<68,69,70,73,78,84>> T_DEFSNG == <<68,69,70,83,78,71>>
T_DEFDBL == <<68,69,70,68,66,76>> T_DEFSTR == <<68,69,70,83,84,82>>
SP == <<32>>

\* identifiers, function names and letters arrive as TLA+ strings over A-Z, 0-9, $ % ! # .
CharCode == [c \in {"A","B","C","D","E","F","G","H","I","J","K","L","M","N","O","P","Q","R","S","T","U",
                    "V","W","X","Y","Z","0","1","2","3","4","5","6","7","8","9","$","%","!","#",
                    ",", " ", ".", "-"} |->
   CASE c = "A" -> 65 [] c = "B" -> 66 [] c = "C" -> 67 [] c = "D" -> 68 [] c = "E" -> 69 [] c = "F" -> 70
     [] c = "G" -> 71 [] c = "H" -> 72 [] c = "I" -> 73 [] c = "J" -> 74 [] c = "K" -> 75 [] c = "L" -> 76
     [] c = "M" -> 77 [] c = "N" -> 78 [] c = "O" -> 79 [] c = "P" -> 80 [] c = "Q" -> 81 [] c = "R" -> 82
     [] c = "S" -> 83 [] c = "T" -> 84 [] c = "U" -> 85 [] c = "V" -> 86 [] c = "W" -> 87 [] c = "X" -> 88
     [] c = "Y" -> 89 [] c = "Z" -> 90 [] c = "0" -> 48 [] c = "1" -> 49 [] c = "2" -> 50 [] c = "3" -> 51
     [] c = "4" -> 52 [] c = "5" -> 53 [] c = "6" -> 54 [] c = "7" -> 55 [] c = "8" -> 56 [] c = "9" -> 57
     [] c = "$" -> 36 [] c = "%" -> 37 [] c = "!" -> 33 [] c = "#" -> 35
     [] c = "," -> 44 [] c = " " -> 32 [] c = "." -> 46 [] c = "-" -> 45]
\* names (identifiers, suffixes, function names) are ASCII strings; free text (remarks,
\* unparsable lines) is carried as code points in a field "cp"
StrCp(str) == [i \in 1..Len(str) |-> CharCode[SubSeq(str, i, i)]]
NameCp(e) == CASE e.k \in {"var", "arr"} -> StrCp(e.id) \o StrCp(e.sfx)
               [] e.k = "call" -> StrCp(e.f)
               [] e.k = "fn" -> StrCp(e.id)
FreeCp(s) == IF "cp" \in DOMAIN s THEN s.cp ELSE StrCp(s.txt)

\* exact decimal expansion of |n| / 2^e
DecDigits(n, e) ==
  IF e = 0 THEN DigitsOf(Abs(n))
  ELSE LET N == Abs(n) * Pow5(e) IN DigitsOf(N \div Pow10(e)) \o <<46>> \o PadDigits(N % Pow10(e), e)

ShowLit(v) ==
  CASE v.t = "I" -> IF v.n = MinInt THEN <<40,45,51,50,55,54,55,45,49,41>>       \* (-32767-1)
                    ELSE IF v.n < 0 THEN <<45>> \o DigitsOf(-v.n) ELSE DigitsOf(v.n)
    [] v.t = "S" -> (IF v.n < 0 THEN <<45>> ELSE <<>>) \o DecDigits(v.n, v.e) \o <<33>>
    [] v.t = "D" -> (IF v.n < 0 THEN <<45>> ELSE <<>>) \o DecDigits(v.n, v.e) \o <<35>>
    [] v.t = "$" -> <<34>> \o v.s \o <<34>>

OpText(op) ==
  CASE op = "add" -> <<43>> [] op = "sub" -> <<45>> [] op = "mul" -> <<42>> [] op = "div" -> <<47>>
    [] op = "idiv" -> <<92>> [] op = "mod" -> <<32,77,79,68,32>> [] op = "pow" -> <<94>>
    [] op = "eq" -> <<61>> [] op = "ne" -> <<60,62>> [] op = "lt" -> <<60>> [] op = "le" -> <<60,61>>
    [] op = "gt" -> <<62>> [] op = "ge" -> <<62,61>>
    [] op = "and" -> <<32,65,78,68,32>> [] op = "or" -> <<32,79,82,32>> [] op = "xor" -> <<32,88,79,82,32>>
    [] op = "imp" -> <<32,73,77,80,32>> [] op = "eqv" -> <<32,69,81,86,32>>

RECURSIVE ShowExpr(_), ShowList(_, _)
ShowExpr(e) ==
  CASE e.k = "lit" -> ShowLit(e.v)
    [] e.k = "par" -> <<40>> \o ShowExpr(e.a) \o <<41>>
    [] e.k = "pos" -> T_POS
    [] e.k = "var" -> NameCp(e)
    [] e.k = "arr" -> NameCp(e) \o <<40>> \o ShowList(e.sub, 1) \o <<41>>
    [] e.k = "un"  -> (CASE e.op = "neg" -> <<45>> [] e.op = "pos" -> <<43>> [] e.op = "not" -> T_NOT \o SP) \o ShowExpr(e.a)
    [] e.k = "bin" -> ShowExpr(e.a) \o OpText(e.op) \o ShowExpr(e.b)
    [] e.k = "call" -> IF e.args = <<>> THEN NameCp(e) ELSE NameCp(e) \o <<40>> \o ShowList(e.args, 1) \o <<41>>
    [] e.k = "fn" -> NameCp(e) \o <<40>> \o ShowList(e.args, 1) \o <<41>>
ShowList(es, i) == IF i > Len(es) THEN <<>>
                   ELSE ShowExpr(es[i]) \o (IF i < Len(es) THEN <<44>> ELSE <<>>) \o ShowList(es, i + 1)

(***************************************************************************)
(* The text of a statement is produced as a sequence of segments so that    *)
(* the places diagnostics point at can be located in it:                    *)
(*   [t |-> code points, r |-> n]  n >= 0: a line number a branch refers to *)
(*   [t, r |-> -1, w |-> "while" / "wend"]  the keyword of a WHILE or WEND  *)
(***************************************************************************)
Txt(cp) == IF cp = <<>> THEN <<>> ELSE <<[t |-> cp, r |-> -1, w |-> ""]>>
Ref(n) == <<[t |-> DigitsOf(n), r |-> n, w |-> ""]>>
KwW(cp, w) == <<[t |-> cp, r |-> -1, w |-> w]>>
RECURSIVE Flat(_, _)
Flat(segs, i) == IF i > Len(segs) THEN <<>> ELSE segs[i].t \o Flat(segs, i + 1)

RECURSIVE RefNums(_, _)
RefNums(ns, i) == IF i > Len(ns) THEN <<>>
                  ELSE Ref(ns[i]) \o (IF i < Len(ns) THEN Txt(<<44>>) ELSE <<>>) \o RefNums(ns, i + 1)
RECURSIVE ShowNames(_, _)
ShowNames(vs, i) == IF i > Len(vs) THEN <<>>
                    ELSE NameCp(vs[i]) \o (IF i < Len(vs) THEN <<44>> ELSE <<>>) \o ShowNames(vs, i + 1)
RECURSIVE ShowLits(_, _)
ShowLits(vs, i) == IF i > Len(vs) THEN <<>>
                   ELSE ShowLit(vs[i]) \o (IF i < Len(vs) THEN <<44>> ELSE <<>>) \o ShowLits(vs, i + 1)

RangeText(s) ==
  CASE s.form = "all" -> <<>>
    [] s.form = "one" -> SP \o DigitsOf(s.a)
    [] s.form = "from" -> SP \o DigitsOf(s.a) \o <<45>>
    [] s.form = "to" -> SP \o <<45>> \o DigitsOf(s.b)
    [] OTHER -> SP \o DigitsOf(s.a) \o <<45>> \o DigitsOf(s.b)

IsSingleGoto(ss) == Len(ss) = 1 /\ ss[1].k = "goto"

RECURSIVE SegStmt(_), SegStmts(_, _), ShowPrintItems(_, _, _, _)
\* items of a PRINT: a blank separates the keyword from a first expression and two adjacent
\* expressions; separators are written as they are
ShowPrintItems(items, i, prevExpr, kwPrint) ==
  IF i > Len(items) THEN <<>>
  ELSE IF "sep" \in DOMAIN items[i]
       THEN (IF items[i].sep = "," THEN <<44>> ELSE <<59>>) \o ShowPrintItems(items, i + 1, FALSE, kwPrint)
       ELSE (IF (i = 1 /\ kwPrint) \/ prevExpr THEN SP ELSE <<>>) \o ShowExpr(items[i].e)
            \o ShowPrintItems(items, i + 1, TRUE, kwPrint)
SegStmt(s) ==
  CASE s.k = "let" -> Txt((IF s.kw THEN T_LET \o SP ELSE <<>>) \o ShowExpr(s.v) \o <<61>> \o ShowExpr(s.e))
    \* (? is a spelling of PRINT: the listing always shows the word)
    [] s.k = "print" -> Txt(T_PRINT \o ShowPrintItems(s.items, 1, FALSE, TRUE))
    [] s.k = "goto" -> Txt(T_GOTO \o SP) \o Ref(s.n)
    [] s.k = "gosub" -> Txt(T_GOSUB \o SP) \o Ref(s.n)
    [] s.k = "return" -> Txt(T_RETURN)
    [] s.k = "ongoto" -> Txt(T_ON \o SP \o ShowExpr(s.e) \o SP \o T_GOTO \o SP) \o RefNums(s.ns, 1)
    [] s.k = "ongosub" -> Txt(T_ON \o SP \o ShowExpr(s.e) \o SP \o T_GOSUB \o SP) \o RefNums(s.ns, 1)
    [] s.k = "if" ->
         Txt(T_IF \o SP \o ShowExpr(s.c) \o SP \o T_THEN \o SP)
         \o (IF s.short /\ IsSingleGoto(s.th) THEN Ref(s.th[1].n) ELSE SegStmts(s.th, 1))
         \o (IF s.el = <<>> THEN <<>>
             ELSE Txt(SP \o T_ELSE \o SP)
                  \o (IF s.short /\ IsSingleGoto(s.el) THEN Ref(s.el[1].n) ELSE SegStmts(s.el, 1)))
    [] s.k = "for" -> Txt(T_FOR \o SP \o ShowExpr(s.v) \o <<61>> \o ShowExpr(s.a) \o SP \o T_TO \o SP \o ShowExpr(s.b)
                      \o (IF s.nostep THEN <<>> ELSE SP \o T_STEP \o SP \o ShowExpr(s.c)))
    [] s.k = "next" -> Txt(T_NEXT \o (IF s.vs = <<>> THEN <<>> ELSE SP \o ShowList(s.vs, 1)))
    [] s.k = "while" -> KwW(T_WHILE, "while") \o Txt(SP \o ShowExpr(s.c))
    [] s.k = "wend" -> KwW(T_WEND, "wend")
    [] s.k = "end" -> Txt(T_END)
    [] s.k = "stop" -> Txt(T_STOP)
    [] s.k = "rem" -> Txt(T_REM \o (IF FreeCp(s) = <<>> THEN <<>> ELSE SP \o FreeCp(s)))
    [] s.k = "data" -> Txt(T_DATA \o SP \o ShowLits(s.vals, 1))
    [] s.k = "read" -> Txt(T_READ \o SP \o ShowList(s.vs, 1))
    [] s.k = "restore" -> Txt(T_RESTORE) \o (IF s.n < 0 THEN <<>> ELSE Txt(SP) \o Ref(s.n))
    [] s.k = "dim" -> Txt(T_DIM \o SP \o ShowList(s.vs, 1))
    [] s.k = "erase" -> Txt(T_ERASE \o SP \o ShowNames(s.vs, 1))
    [] s.k = "def" -> Txt(T_DEF \o SP \o StrCp(s.id) \o <<40>> \o ShowNames(s.ps, 1) \o <<41, 61>> \o ShowExpr(s.e))
    [] s.k = "deftype" ->
         Txt((CASE s.t = "I" -> T_DEFINT [] s.t = "S" -> T_DEFSNG [] s.t = "D" -> T_DEFDBL [] OTHER -> T_DEFSTR)
             \o SP \o <<CharCode[s.a]>> \o (IF s.a = s.b THEN <<>> ELSE <<45, CharCode[s.b]>>))
    [] s.k = "swap" -> Txt(T_SWAP \o SP \o ShowExpr(s.v1) \o <<44>> \o ShowExpr(s.v2))
    [] s.k = "mid" -> Txt(T_MID \o <<40>> \o ShowExpr(s.v) \o <<44>> \o ShowExpr(s.p)
                      \o (IF s.non THEN <<>> ELSE <<44>> \o ShowExpr(s.n)) \o <<41, 61>> \o ShowExpr(s.e))
    [] s.k = "input" -> Txt(T_INPUT \o (IF s.caps THEN SP ELSE <<44>>)
                        \o (IF s.hasp THEN <<34>> \o s.prompt \o <<34, 59>> ELSE <<>>) \o ShowList(s.vs, 1))
    [] s.k = "clear" -> Txt(T_CLEAR)
    [] s.k = "run" -> Txt(T_RUN) \o (IF s.n < 0 THEN <<>> ELSE Txt(SP) \o Ref(s.n))
    [] s.k = "cont" -> Txt(T_CONT)
    [] s.k = "tron" -> Txt(T_TRON)
    [] s.k = "troff" -> Txt(T_TROFF)
    [] s.k = "new" -> Txt(T_NEW)
    [] s.k = "cls" -> Txt(T_CLS)
    [] s.k = "delete" -> Txt(T_DELETE \o RangeText(s))
    [] s.k = "list" -> Txt(T_LIST \o RangeText(s))
    [] s.k = "renum" -> Txt(T_RENUM \o (IF s.args = "" THEN <<>> ELSE SP \o StrCp(s.args)))
    [] s.k = "bad" -> Txt(FreeCp(s))
SegStmts(ss, i) == IF i > Len(ss) THEN <<>>
                   ELSE SegStmt(ss[i]) \o (IF i < Len(ss) THEN Txt(<<58>>) ELSE <<>>) \o SegStmts(ss, i + 1)

ShowStmt(s) == Flat(SegStmt(s), 1)
ShowStmts(ss, i) == Flat(SegStmts(ss, i), 1)

\* the listed line: number, one blank, statements separated by colons (ln = -1: a direct line)
SegLine(n, stmts) == (IF n >= 0 THEN Txt(DigitsOf(n) \o SP) ELSE <<>>) \o SegStmts(stmts, 1)
ShowLine(n, stmts) == Flat(SegLine(n, stmts), 1)
\* the column range [c0, c1) of segment i in the text
RECURSIVE SegStart(_, _)
SegStart(segs, i) == IF i = 1 THEN 0 ELSE SegStart(segs, i - 1) + Len(segs[i - 1].t)
SegRange(segs, i) == <<SegStart(segs, i), SegStart(segs, i) + Len(segs[i].t)>>
=============================================================================
