---------------------------- MODULE TraceShell ----------------------------
(***************************************************************************)
(* Trace validation for RuntimeShell: the harness records every API call    *)
(* made on the real Runtime (enter / execute / interrupt / get_listing /    *)
(* set_listing) with the event returned and a probe of the control state;   *)
(* TLC checks that each recorded step is a step of the corresponding        *)
(* RuntimeShell action into exactly the recorded state.  A call that        *)
(* panicked or did not return is recorded as such and matches no action.    *)
(***************************************************************************)
EXTENDS RuntimeShell, Json, IOUtils

Rec == ndJsonDeserialize(IOEnv.TRACE)
Chunk == IF "CHUNK" \in DOMAIN IOEnv THEN atoi(IOEnv.CHUNK) ELSE 100000000

VARIABLES ci, l, hi
tvars == <<vars, ci, l, hi>>

Case == Rec[ci]
E == Case.ev[l]

Pin(p) == /\ state' = p.state /\ cont' = p.cont /\ direct' = p.direct /\ entry0' = p.entry0
          /\ dirty' = p.dirty /\ colpos' = p.colpos /\ ierr' = p.ierr /\ derr' = p.derr

Reset == /\ state' = "Intro" /\ cont' = "Stopped" /\ direct' = FALSE /\ entry0' = FALSE /\ dirty' = FALSE
         /\ colpos' = FALSE /\ ierr' = FALSE /\ derr' = FALSE /\ ui' = "exec" /\ ev' = "" /\ lv' = 0 /\ cv' = 0
         /\ snaps' = 0 /\ drain' = FALSE

Step ==
  /\ ci <= hi /\ l <= Len(Case.ev)
  /\ CASE E.call = "enter" ->
            (CASE ui = "line" -> EnterLine(E.cls) [] ui = "reply" -> EnterReply [] ui = "key" -> EnterKey [] OTHER -> FALSE)
       [] E.call = "execute" -> Execute /\ ev' = E.ret
       [] E.call = "interrupt" -> Interrupt /\ drain' = FALSE
       [] E.call = "snap" -> Snapshot
       [] E.call = "drop" -> Release
       [] E.call = "set_listing" -> SetListing(E.run)
       [] E.call = "file_failed" -> FileFailed
       [] OTHER -> FALSE            \* "panic" / "hang": no action of the specification
  /\ Pin(E.post)
  /\ l' = l + 1 /\ UNCHANGED <<ci, hi>>

Accept == /\ ci <= hi /\ l > Len(Case.ev)
          /\ PrintT(ToJson([T |-> "ACCEPT", id |-> Case.id]))
          /\ Reset /\ ci' = ci + 1 /\ l' = 1 /\ UNCHANGED hi
Stuck  == /\ ci <= hi /\ l <= Len(Case.ev) /\ ~ENABLED Step
          /\ PrintT(ToJson([T |-> "STUCK", id |-> Case.id, l |-> l, call |-> E.call,
                            pre |-> [state |-> state, cont |-> cont, direct |-> direct, entry0 |-> entry0, dirty |-> dirty,
                                     colpos |-> colpos, ierr |-> ierr, derr |-> derr, ui |-> ui, lv |-> lv, cv |-> cv]]))
          /\ Reset /\ ci' = ci + 1 /\ l' = 1 /\ UNCHANGED hi

TInit == /\ Init /\ ci \in {i \in 1..Len(Rec) : (i - 1) % Chunk = 0}
         /\ hi = (IF ci + Chunk - 1 < Len(Rec) THEN ci + Chunk - 1 ELSE Len(Rec)) /\ l = 1
TNext == Step \/ Accept \/ Stuck
TSpec == TInit /\ [][TNext]_tvars
=============================================================================
