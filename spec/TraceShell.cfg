INIT TInit
NEXT TNext
INVARIANT TypeOK
INVARIANT ProtocolSafe
INVARIANT CacheCoherent
CHECK_DEADLOCK FALSE
