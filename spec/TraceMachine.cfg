CONSTANT Limit = 65535
SPECIFICATION Spec
INVARIANT VarsTyped
INVARIANT InBounds
INVARIANT PoolBounded
INVARIANT DataInRange
CHECK_DEADLOCK FALSE
VIEW View
