------------------------------ MODULE MC_Prog ------------------------------
(***************************************************************************)
(* Bounded program spaces for the properties that quantify over programs:   *)
(* every program [line -> template] of the selected template set is entered *)
(* into the abstract machine and run (big steps, one TLC state per command);*)
(* the invariants of the machine are checked after every command and every  *)
(* behaviour is printed as a session for the conformance harness.           *)
(*   Set = "C09"  DATA / READ / RESTORE placements                          *)
(*   Set = "C10"  user functions                                            *)
(*   Set = "C11"  PRINT layout                                              *)
(*   Set = "C17"  INPUT statements x replies                                *)
(***************************************************************************)
EXTENDS AstB, Json

CONSTANTS Set, NLines, Fuel, Size

VARIABLES m, cmds, prog, n
vars == <<m, cmds, prog, n>>

A == Var("A", "A", "")     B == Var("B", "B", "")     X == Var("X", "X", "")    Y == Var("Y", "Y", "")
I == Var("I", "I", "")     NP == Var("N", "N", "%")   BS == Var("B", "B", "$")  AS == Var("A", "A", "$")
XP == Var("X", "X", "%")   P == Var("P", "P", "")     Q == Var("Q", "Q", "")
PS(s) == SPrint(<<PE(LStr(s)), PSep(";")>>)
PV(v) == SPrint(<<PE(v), PSep(";")>>)
Str(s) == LStr(s)
LineNos == <<10, 20, 30, 40, 50>>

(*************************** C09: DATA ************************************)
DV(n_) == MkI(n_)
T09 == { <<SData(<<DV(1), DV(2)>>)>>, <<SData(<<DV(3)>>)>>, <<SData(<<MkStr(<<88>>)>>)>>,
         <<SData(<<MkF("S", -9, 1)>>), PS(<<100>>)>>,
         <<SRead(<<A>>), PV(A)>>, <<SRead(<<A, BS>>), PV(A), PV(BS)>>, <<SRead(<<NP>>), PV(NP)>>,
         <<SRestore(-1)>>, <<SRestore(20)>>, <<SRestore(30)>>,
         <<PV(A)>>, <<SIf(Bin("lt", A, LI(3)), <<SGoto(10)>>, <<>>)>>,
         <<SClear>>, <<SRead(<<A>>), SRestore(10), SRead(<<B>>), PV(B)>> }
Tail09(k) == CASE k = 0 -> <<CDirect(<<SRun(-1)>>)>>
               [] k = 1 -> <<CDirect(<<SRead(<<A>>), PV(A)>>)>>
               [] k = 2 -> <<CLine(15, <<SData(<<DV(7)>>)>>)>>
               [] k = 3 -> <<CDirect(<<SRun(-1)>>)>>
               [] k = 4 -> <<CDirect(<<SData(<<DV(99)>>)>>)>>            \* DATA in a direct line is refused
               [] k = 5 -> <<CDirect(<<SRead(<<B>>), SRead(<<B>>), SRead(<<B>>), SRead(<<B>>), SRead(<<B>>), SRead(<<B>>), PV(B)>>)>>
               [] OTHER -> <<>>

(*************************** C10: user functions ***************************)
FA(args) == FnCall("FNA", args)    FB(args) == FnCall("FNB", args)
T10 == { <<SDef("FNA", <<X>>, Bin("add", Bin("mul", X, LI(2)), Y))>>,
         <<SDef("FNB", <<X, Y>>, Bin("add", FA(<<X>>), Y))>>,
         <<SDef("FNA", <<XP>>, Bin("mul", XP, LI(3)))>>,
         \* (a later DEF replaces an earlier one altogether, parameter count included)
         <<SDef("FNA", <<X, Y>>, Bin("add", Bin("mul", X, LI(10)), Y))>>,
         <<SDef("FNA", <<X>>, Bin("add", FA(<<X>>), LI(1)))>>,       \* runaway recursion
         <<SDef("FNA", <<X>>, FA(<<Bin("add", X, LI(1))>>))>>,         \* ... with the call as the last thing the body does
         <<SDef("FNB", <<P, Q>>, Bin("sub", FA(<<FA(<<P>>)>>), Q))>>,
         \* parameters in every argument position of nested calls, built-ins and subscripts
         <<SDef("FNC", <<P, Q>>, Bin("sub", FB(<<Q, P>>), LI(1))), PV(FnCall("FNC", <<LI(1), LI(4)>>))>>,
         <<SDef("FNE", <<P, Q>>, Bin("add", Arr("A", "A", "", <<P, Q>>), CallF("LEN", <<CallF("MID$", <<LStr(<<65, 66, 67, 68>>), P, Q>>)>>))),
           SLet(Arr("A", "A", "", <<LI(1), LI(2)>>), LI(10)), SLet(P, LI(0)), SLet(Q, LI(0)), PV(FnCall("FNE", <<LI(1), LI(2)>>))>>,
         \* functions whose names differ only in the type suffix are different functions with
         \* parameters of their own: the caller's parameter survives the nested call
         <<SDef("FNS%", <<X>>, Bin("add", Bin("mul", FnCall("FNS#", <<Bin("add", X, LI(1))>>), LI(10)), X)),
           SDef("FNS#", <<X>>, X), PV(FnCall("FNS%", <<LI(1)>>))>>,
         <<SDef("FNA$", <<X>>, Bin("add", CallF("STR$", <<FA(<<Bin("add", X, LI(1))>>)>>), CallF("STR$", <<X>>))),
           PV(FnCall("FNA$", <<LI(1)>>))>>,
         <<SLet(X, LI(5)), SLet(Y, LI(1))>>,
         <<PV(FA(<<LI(3)>>)), PV(X)>>,
         <<PV(FB(<<LI(1), LI(2)>>)), PV(Y)>>,
         <<PV(FA(<<LI(1), LI(2)>>))>>,                                \* wrong arity
         <<PV(FA(<<LS(5, 1)>>))>>,
         <<PV(FnCall("FND", <<LI(1)>>))>>,                            \* undefined
         <<SFor(I, LI(1), LI(2)), PV(FA(<<I>>)), SNext(<<>>)>>,
         <<SLet(Arr("A", "A", "", <<FA(<<LI(1)>>)>>), LI(3)), PV(Arr("A", "A", "", <<LI(2)>>)), PV(Arr("A", "A", "", <<LI(3)>>))>>,
         <<SIf(Bin("eq", FA(<<LI(1)>>), LI(3)), <<PS(<<84>>)>>, <<PS(<<70>>)>>)>>,
         <<SGosub(50), PS(<<71>>)>> }
Last10 == <<SEnd>>      \* line 50 is fixed: a subroutine calling a function
Sub10 == <<PV(FB(<<LI(2), LI(2)>>)), SReturn>>
Tail10(k) == CASE k = 0 -> <<CDirect(<<SRun(-1)>>)>>
               [] k = 1 -> <<CDirect(<<PV(X), PV(Y), PV(FA(<<LI(2)>>))>>)>>
               [] k = 2 -> <<CDirect(<<SDef("FNZ", <<X>>, X)>>)>>        \* DEF in direct mode
               [] OTHER -> <<>>

(*************************** C11: PRINT layout *****************************)
S14 == <<49,50,51,52,53,54,55,56,57,48,49,50,51,52>>
S15 == S14 \o <<53>>
Items == { Str(<<65, 66>>), Str(S14), Str(S15), Str(<<233>>), Str(<<>>),
           LI(5), Un("neg", LI(3)), LS(1, 1), LI(0), LS(9999999, 0), LD(-5, 2), LI(32767),
           CallF("TAB", <<LI(3)>>), CallF("TAB", <<LI(16)>>), CallF("TAB", <<LI(0)>>), CallF("TAB", <<Un("neg", LI(4))>>),
           CallF("SPC", <<LI(2)>>), CallF("SPC", <<LI(0)>>), [k |-> "pos"], Str(<<65, 10, 66>>) }
SmallItems == { Str(<<65, 66>>), LI(5), Un("neg", LI(3)), LS(1, 1), CallF("TAB", <<LI(16)>>), [k |-> "pos"], Str(S15) }
Seps == {";", ",", ""}
PL1(its) == { SPrint(<<PE(i)>> \o (IF t = "" THEN <<>> ELSE <<PSep(t)>>)) : i \in its, t \in Seps }
\* juxtaposition is only written where the two items cannot be read as one expression
IsStrLit(e) == e.k = "lit" /\ e.v.t = "$"
JuxtOK(i, j, s) == s # "" \/ IsStrLit(j) \/ (IsStrLit(i) /\ j.k # "un")
PL2(its1, its2) == { SPrint(<<PE(x[1])>> \o (IF x[3] = "" THEN <<>> ELSE <<PSep(x[3])>>) \o <<PE(x[2])>>
                            \o (IF x[4] = "" THEN <<>> ELSE <<PSep(x[4])>>)) :
                       x \in {y \in its1 \X its2 \X Seps \X {";", ""} : JuxtOK(y[1], y[2], y[3])} }
T11a == { <<st>> : st \in PL1(Items) } \cup { <<SPrint(<<>>)>>, <<SPrint(<<PSep(",")>>)>>, <<STron>> }
T11b == { <<st>> : st \in PL1(Items) \cup (IF Size > 1 THEN PL2(Items, SmallItems) ELSE PL2(SmallItems, SmallItems)) }
        \cup { <<SInput(TRUE, FALSE, <<>>, <<A>>), PV([k |-> "pos"])>>,
               <<PV(Bin("idiv", LI(1), LI(0)))>>,
               \* a keyboard poll prints nothing and moves nothing
               <<SLet(AS, CallF("INKEY$", <<>>)), SPrint(<<PE(CallF("TAB", <<LI(5)>>)), PSep(";"), PE(Str(<<88>>)), PSep(";"), PE([k |-> "pos"])>>)>>,
               <<SLet(AS, CallF("INKEY$", <<>>)), SPrint(<<PE(Str(<<89>>)), PSep(","), PE(Str(<<90>>))>>)>> }
Tail11(k) == CASE k = 0 -> <<CDirect(<<SRun(-1)>>)>>
               [] k = 1 -> <<CDirect(<<PV([k |-> "pos"]), SPrint(<<PE(Str(<<68>>)), PSep(","), PE(LI(1))>>)>>)>>
               [] OTHER -> <<>>

(*************************** C17: INPUT ************************************)
AI == Arr("A", "A", "", <<I>>)
InputForms ==
  { SInput(TRUE, FALSE, <<>>, <<A>>), SInput(TRUE, TRUE, <<81>>, <<A>>), SInput(FALSE, FALSE, <<>>, <<AS>>),
    SInput(TRUE, FALSE, <<>>, <<AS>>), SInput(TRUE, FALSE, <<>>, <<NP>>),
    SInput(TRUE, TRUE, <<78, 32>>, <<A, BS>>), SInput(TRUE, FALSE, <<>>, <<AS, BS>>),
    SInput(TRUE, FALSE, <<>>, <<I, AI>>), SInput(FALSE, TRUE, <<>>, <<NP, A, BS>>) }
RAlpha == IF Size > 1 THEN <<49, 50, 45, 46, 44, 34, 32, 65, 53>> ELSE <<49, 45, 46, 44, 34, 32, 65>>
RECURSIVE Strings(_)
Strings(k) == IF k = 0 THEN {<<>>} ELSE LET s == Strings(k - 1) IN
              s \cup { Append(x, RAlpha[i]) : x \in {y \in s : Len(y) = k - 1}, i \in 1..Len(RAlpha) }
Replies == Strings(IF Size > 1 THEN 4 ELSE 3) \cup { <<49, 44, 50>>, <<34, 65, 44, 66, 34>>, <<32, 55, 32>>, <<50, 44, 34, 88, 34>>,
              <<49, 44, 50, 44, 51>>, <<50, 46, 53, 44, 32, 34, 97, 34, 32>>, <<51, 44, 52, 46, 53>>, <<49, 49, 44, 49>>,
              <<34, 65, 34, 66>>, <<44>>, <<44, 44>>, <<49, 44>>, <<45, 49, 44, 49>>, <<51, 50, 55, 54, 56>>,
              <<49, 69, 50>>, <<49, 101, 49>>, <<38, 72, 49, 70>>, <<38, 49, 55>>, <<38, 104, 49, 102>>, <<49, 68, 49>>, <<46, 53>>, <<43, 51>>, <<49, 46>>, <<49, 69>>, <<69, 49>>, <<38, 72, 71>>, <<38, 56>>, <<50, 46, 53, 69, 45, 49>>, <<49, 69, 43, 49, 44, 38, 72, 55, 70, 70, 70>>, <<45, 46, 53, 44, 34, 65, 44, 66, 34>>, <<32, 49, 50, 32, 44, 32, 32, 88, 32, 89, 32>>, <<34, 34>>, <<34>>, <<49, 44, 34, 65, 34, 34, 66, 34>>, <<38, 44, 49>>, <<49, 46, 53, 46, 50>>, <<45, 45, 49>>, <<49, 32, 50>>, <<34, 65, 34, 32, 44, 34, 66, 34>>, <<55, 44, 44>>, <<38, 72, 56, 48, 48, 48>>, <<57, 57, 57, 57, 57, 44, 49>>, <<49, 69, 53, 44, 49>>,
              \* hexadecimal digits that are also exponent letters
              <<38, 72, 68>>, <<38, 104, 49, 100>>, <<38, 72, 68, 69>>, <<38, 72, 69, 44, 38, 72, 100>> }
Show17 == <<PV(A), PV(AS), PV(BS), PV(NP), PV(I), PV(Arr("A", "A", "", <<LI(3)>>)), PS(<<124>>)>>
Good == <<51, 44, 52, 44, 53>>     \* "3,4,5" (never acceptable for a single string? it is: whole reply)

(***************************************************************************)
ProgSpace ==
  CASE Set = "C09" -> [lines : [1..NLines -> T09], x : {0}]
    [] Set = "C10" -> [lines : [1..NLines -> T10], x : {0}]
    [] Set = "C11" -> { [lines |-> <<a, b>>, x |-> 0] : a \in T11a, b \in T11b }
    [] Set = "C17" -> UNION {{ [lines |-> <<<<f>>, Show17>>, x |-> r] : r \in Replies } : f \in InputForms}

LinesOf(p) ==
  CASE Set = "C10" -> [i \in 1..Len(p.lines) |-> CLine(LineNos[i], p.lines[i])]
                      \o <<CLine(40, Last10), CLine(50, Sub10)>>
    [] Set = "C17" -> <<CLine(10, <<SFor(Var("K","K",""), LI(1), LI(1)), SGosub(30), SNext(<<>>), SEnd>>),
                        CLine(30, p.lines[1]), CLine(40, p.lines[2] \o <<SReturn>>)>>
    [] OTHER -> [i \in 1..Len(p.lines) |-> CLine(LineNos[i], p.lines[i])]

NReplies(cs) == Cardinality({i \in 1..Len(cs) : cs[i].k = "reply"})
TailCmd(p, mm, cs, k) ==
  CASE Set = "C09" -> Tail09(k)
    [] Set = "C10" -> Tail10(k)
    [] Set = "C11" -> IF mm.mode = "input" THEN <<CReply(<<55>>)>> ELSE Tail11(k - NReplies(cs))
    [] Set = "C17" -> IF k = 0 THEN <<CDirect(<<SRun(-1)>>)>>
                      ELSE IF mm.mode = "input" /\ NReplies(cs) = 0 THEN <<CReply(p.x)>>
                      ELSE IF mm.mode = "input" /\ NReplies(cs) = 1 THEN <<CReply(Good)>>
                      ELSE IF mm.mode = "input" /\ NReplies(cs) = 2 THEN <<CReply(<<53>>)>>
                      ELSE IF mm.mode = "input" /\ NReplies(cs) = 3 THEN <<CInt>>
                      ELSE <<>>

RECURSIVE Feed(_, _, _)
Feed(mm, cs, i) == IF i > Len(cs) THEN mm ELSE Feed(Do(mm, cs[i], Fuel), cs, i + 1)

Init == prog \in ProgSpace /\ m = InitM /\ cmds = <<>> /\ n = -1
Enter == n = -1 /\ cmds' = LinesOf(prog) /\ m' = Feed(InitM, cmds', 1) /\ n' = 0 /\ UNCHANGED prog
Cmd == /\ n >= 0 /\ m.mode \in {"ready", "input"}
       /\ LET t == TailCmd(prog, m, cmds, n) IN
          /\ t # <<>>
          /\ m' = Do(m, t[1], Fuel) /\ cmds' = Append(cmds, t[1]) /\ n' = n + 1
       /\ UNCHANGED prog
Next == Enter \/ Cmd

Done == n >= 0 /\ (m.mode = "oom" \/ TailCmd(prog, m, cmds, n) = <<>>)
EmitSess == Done => PrintT(ToJson([R |-> "sess", cmds |-> cmds, oom |-> (m.mode = "oom"), why |-> m.why]))

VarsTyped == \A k \in DOMAIN m.vars :
               /\ m.vars[k].t = TypeOfName(k[1], k[3], m.deft)
               /\ ~IsDefault(m.vars[k])
DataInRange == m.dptr >= 0 /\ m.dptr <= Len(m.data)
ReadyClean == m.mode = "ready" => m.col = 0
\* C10: a function call never changes a variable: lines that only PRINT leave the store alone
\* C17: while the machine waits for a reply, control is at the INPUT statement
InputAtStmt == m.mode = "input" => m.inp # NoCont
=============================================================================
