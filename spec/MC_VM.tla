------------------------------- MODULE MC_VM -------------------------------
(***************************************************************************)
(* Refinement of the manual-level machine by the implementation-level one:  *)
(* for every program of a bounded space the compiled program is run opcode  *)
(* by opcode on BasicVM, the listing statement by statement on BasicMachine, *)
(* and at every prompt the two must agree on what the user saw and on the    *)
(* state a later command can observe.  At every opcode boundary the VM's own *)
(* invariants are checked (C18: nothing but FOR / GOSUB frames below a       *)
(* statement; C20: every branch operand is the address of its target line).  *)
(***************************************************************************)
EXTENDS MC_C01, VMRefine

CONSTANTS MaxV, WithIntr, IntrWin

VARIABLES v, vsteps, ph
vvars == <<m, prog, steps, cmds, v, vsteps, ph>>

RECURSIVE VEnterAll(_, _, _)
VEnterAll(vv, p, i) == IF i > NLines THEN vv ELSE VEnterAll(VEnterLine(vv, LineNos[i], p[i]), p, i + 1)

RunCmd == <<SRun(-1)>>
VInit == /\ prog \in ProgSpace
         /\ m = RunToWait(EnterDirect(EnterAll(InitM, prog, 1), RunCmd), MaxSteps)
         /\ v = VEnterDirect(VEnterAll(InitV, prog, 1), RunCmd)
         /\ steps = 0 /\ vsteps = 0 /\ ph = 0
         /\ cmds = Entered(prog) \o <<CDirect(RunCmd)>>

VRun == /\ v.wait = "" /\ vsteps < MaxV
        /\ v' = VExecute(v) /\ vsteps' = vsteps + 1
        /\ UNCHANGED <<m, prog, steps, cmds, ph>>
\* the user continues after STOP / END (once), on both machines
VCont == /\ v.wait = "stopped" /\ ph = 0 /\ m.mode = "ready" /\ m.cont # NoCont /\ ~m.contx
         /\ m' = RunToWait(EnterDirect(m, <<SCont>>), MaxSteps)
         /\ v' = VEnterDirect(v, <<SCont>>)
         /\ ph' = 1 /\ vsteps' = 0 /\ cmds' = Append(cmds, CDirect(<<SCont>>))
         /\ UNCHANGED <<prog, steps>>
\* C13 at the opcode level: an interrupt at any opcode boundary of the first run, then CONT
\* (only within the first IntrWin steps: a looping program is interrupted in its first rounds)
VIntr == /\ WithIntr /\ v.wait = "" /\ ph = 0 /\ v.st \in {"Running", "InputRunning"} /\ v.pc < v.entry /\ vsteps <= IntrWin
         /\ v' = VInterrupt(v) /\ ph' = 2 /\ vsteps' = 0
         /\ UNCHANGED <<m, prog, steps, cmds>>
VResume == /\ ph = 2 /\ v.wait = "stopped"
           /\ v' = VEnterDirect(v, <<SCont>>) /\ ph' = 3 /\ vsteps' = 0
           /\ UNCHANGED <<m, prog, steps, cmds>>
VNextA == VRun \/ VCont \/ VIntr \/ VResume
VSpec == VInit /\ [][VNextA]_vvars
\* liveness (C03 at the level of the implementation model): an interrupt delivered at any opcode
\* boundary brings the machine to the prompt, provided execute keeps being called
VSpecFair == VSpec /\ WF_vvars(VRun)
IntrConverges == [](ph = 2 => <>(v.wait = "stopped"))

\* the two machines agree whenever both wait at a prompt after the same commands
Refines ==
  (v.wait \in {"stopped", "input"} /\ ph \in {0, 1} /\ m.mode # "oom") =>
     Agree(m, v)

\* C13 at opcode granularity: interrupted anywhere and continued, the run ends in the same
\* state (output is compared by the trace pipeline, where the line structure is known)
OutText(r) == LET RECURSIVE Cat(_) Cat(i) == IF i > Len(r) THEN <<>> ELSE (IF r[i].k = "out" THEN r[i].s ELSE <<>>) \o Cat(i + 1) IN Cat(1)
ErrCodes(r) == UNION {{e.code : e \in r[i].errs} : i \in {i \in 1..Len(r) : r[i].k = "err"}}
SliceInvariant ==
  (ph = 3 /\ v.wait = "stopped" /\ m.mode = "ready" /\ ~m.contx /\ ~m.ctlx /\ ~m.stale) =>
     /\ \A k \in DOMAIN m.vars \cup DOMAIN v.vars : Fetch(m.vars, m.deft, k) = Fetch(v.vars, v.deft, k)
     /\ m.dims = v.dims /\ m.dptr = v.dpos
     /\ Len(v.stk) = m.nslots
     /\ (m.cont # NoCont) <=> (v.ct # "Stopped")

NoRunWithErrors == ErrorsBlock(v)
\* ---- the VM's own invariants, at every opcode boundary
VTypeOK == /\ v.pc >= 0 /\ v.pc <= Len(v.P.link.ops)
           /\ Len(v.stk) <= Limit + 1
           /\ v.col >= 0 /\ v.dpos >= 0 /\ v.dpos <= Len(v.P.link.data)
VVarsTyped == \A k \in DOMAIN v.vars : v.vars[k].t = TypeOfName(k[1], k[3], v.deft) /\ ~IsDefault(v.vars[k])
\* every linked branch lands on the first opcode of its line, every FOR / GOSUB marker inside the code
Linked == LET L == v.P.link IN
  /\ L.unl = EmptyFn
  /\ \A i \in 1..Len(L.ops) :
       /\ L.ops[i].o \in {"JUMP", "IFNOT"} => L.ops[i].a <= Len(L.ops)
       /\ (L.ops[i].o = "LIT" /\ IsMark(L.ops[i].a)) => L.ops[i].a.n <= Len(L.ops)
\* between statements of the program the stack holds frames only (C18): checked where the
\* model knows a statement starts -- the first opcode of a line
AtLineStart == v.st = "Running" /\ v.wait = "" /\ \E s \in DOMAIN v.P.link.syms : s >= 0 /\ s # DirectSym /\ v.P.link.syms[s][1] = v.pc
FramesAtLineStart == AtLineStart => FramesOnly(v.stk, Len(v.stk))
=============================================================================
