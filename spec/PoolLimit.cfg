CONSTANTS
  Limit = 3
  Names = {"a", "b", "c"}
  Vals = {0, 1, 2}
  MaxBulk = 3
SPECIFICATION Spec
INVARIANT TypeOK
INVARIANT PoolBounded
PROPERTY RefusedChangesNothing
PROPERTY OnlyClearShrinksFull
CHECK_DEADLOCK FALSE
