------------------------------ MODULE MC_C15 ------------------------------
(***************************************************************************)
(* C15: the program store is an ordered map with exact LIST / DELETE ranges.*)
(* In the abstract machine the listing is a function from line numbers to   *)
(* the statements last entered; LIST a-b emits exactly the lines in the     *)
(* inclusive range in ascending order (with their text), DELETE a-b removes *)
(* exactly those.  TLC explores the state graph of the store over a small   *)
(* universe of line numbers (including 0, 65528, 65529) under every         *)
(* operation form; every transition is a session validated against the real *)
(* interpreter, each followed by a full LIST.                               *)
(***************************************************************************)
EXTENDS AstB, Json

CONSTANTS Depth, Fuel, Nums, Ends

VARIABLES m, cmds
vars == <<m, cmds>>

PS(s) == SPrint(<<PE(LStr(s)), PSep(";")>>)
T1 == <<PS(<<65>>)>>
T2 == <<SLet(Var("A", "A", ""), LI(2)), SRem>>
Rng(k, a, b, form) == [k |-> k, a |-> a, b |-> b, form |-> form, bare |-> (form = "all")]
Forms(k) == { Rng(k, a, a, "one") : a \in Ends } \cup { Rng(k, a, 65529, "from") : a \in Ends }
            \cup { Rng(k, 0, b, "to") : b \in Ends } \cup { Rng(k, a, b, "range") : a \in Ends, b \in Ends }
            \cup { Rng(k, 0, 65529, "all") }
Menu == { CLine(n, T1) : n \in Nums } \cup { CLine(n, T2) : n \in Nums } \cup { CLine(n, <<>>) : n \in Nums }
        \cup { CLine(65530, T1) }
        \cup { CDirect(<<r>>) : r \in Forms("list") \cup Forms("delete") }
ListAll == CDirect(<<Rng("list", 0, 65529, "all")>>)

Init == m = InitM /\ cmds = <<>>
Next == \E c \in Menu :
          /\ Len(cmds) < Depth /\ m.mode = "ready"
          /\ m' = Do(m, c, Fuel) /\ cmds' = Append(cmds, c)
          /\ PrintT(ToJson([R |-> "sess", cmds |-> Append(cmds', ListAll)]))

\* ---- the properties, on the specification
Last == cmds'[Len(cmds')]
IsRange(c, k) == c.k = "direct" /\ c.stmts[1].k = k
Rejected(c) == LET s == c.stmts[1] IN s.bare \/ s.a > MaxLine \/ s.b > MaxLine \/ s.a > s.b
Listed(resp) == SelectSeq(resp, LAMBDA it : it.k = "list")
InRange(lst, s) == {n \in DOMAIN lst : n >= s.a /\ n <= s.b}
\* LIST shows exactly the lines of the range, ascending, with the text last entered, and changes nothing
ListExact == [][ IsRange(Last, "list") =>
                  /\ m'.lst = m.lst /\ m'.src = m.src
                  /\ LET ls == Listed(m'.resp)  s == Last.stmts[1] IN
                     IF s.a > MaxLine \/ s.b > MaxLine \/ s.a > s.b THEN ls = <<>>
                     ELSE /\ {ls[i].ln : i \in 1..Len(ls)} = InRange(m.lst, s)
                          /\ \A i \in 1..Len(ls) - 1 : ls[i].ln < ls[i + 1].ln
                          /\ \A i \in 1..Len(ls) : ls[i].text = ShowLine(ls[i].ln, m.src[ls[i].ln]) ]_vars
\* DELETE removes exactly the lines of the range; a rejected DELETE changes nothing
DeleteExact == [][ IsRange(Last, "delete") =>
                    IF Rejected(Last) THEN m'.lst = m.lst /\ m'.src = m.src
                    ELSE /\ DOMAIN m'.lst = DOMAIN m.lst \ InRange(m.lst, Last.stmts[1])
                         /\ \A n \in DOMAIN m'.lst : m'.src[n] = m.src[n] ]_vars
\* a numbered line inserts or replaces exactly that line; a bare number deletes exactly that line
LineExact == [][ Last.k = "line" =>
                  IF Last.n > MaxLine THEN m'.src = m.src
                  ELSE /\ \A n \in (DOMAIN m.src \cup DOMAIN m'.src) \ {Last.n} :
                            n \in DOMAIN m.src /\ n \in DOMAIN m'.src /\ m'.src[n] = m.src[n]
                       /\ IF Last.stmts = <<>> THEN Last.n \notin DOMAIN m'.src
                          ELSE Last.n \in DOMAIN m'.src /\ m'.src[Last.n] = Last.stmts ]_vars
DomainOK == DOMAIN m.lst = DOMAIN m.src /\ \A n \in DOMAIN m.lst : n >= 0 /\ n <= MaxLine
View == <<m.src, Len(cmds)>>
=============================================================================
