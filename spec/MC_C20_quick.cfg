CONSTANT Limit = 12
CONSTANT NLines = 2
CONSTANT Fuel = 80
CONSTANT Tset = 1
INIT Init
NEXT Next
INVARIANT LayoutInvariant
INVARIANT EmitSess
CHECK_DEADLOCK FALSE
