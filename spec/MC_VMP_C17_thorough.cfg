CONSTANT Limit = 200
CONSTANT Set = "C17"
CONSTANT NLines = 1
CONSTANT Fuel = 80
CONSTANT Size = 2
INIT PInit
NEXT PNext
CHECK_DEADLOCK FALSE
CONSTANT VFuel = 2500
INVARIANT PRefines
INVARIANT PInside
