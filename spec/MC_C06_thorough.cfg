CONSTANT Limit = 100
CONSTANT Depth = 3
CONSTANT Fuel = 40
CONSTANT Wide = FALSE
INIT Init
NEXT Next
INVARIANT VarsTyped
INVARIANT InBounds
PROPERTY SwapAtomic
VIEW View
CHECK_DEADLOCK FALSE
