CONSTANT Limit = 100
CONSTANT Depth = 2
CONSTANT Fuel = 40
CONSTANT Wide = FALSE
INIT GInit
NEXT GNext
VIEW GView
CHECK_DEADLOCK FALSE
CONSTANT VFuel = 2500
INVARIANT GRefines
