CONSTANT Limit = 200
CONSTANT Set = "C09"
CONSTANT NLines = 3
CONSTANT Fuel = 80
CONSTANT Size = 1
INIT Init
NEXT Next
INVARIANT VarsTyped
INVARIANT DataInRange
INVARIANT ReadyClean
INVARIANT InputAtStmt
INVARIANT EmitSess
CHECK_DEADLOCK FALSE
