CONSTANT Limit = 65535
INIT Init
NEXT Next
INVARIANT EmitCode
CHECK_DEADLOCK FALSE
