------------------------------ MODULE MC_VMP ------------------------------
(***************************************************************************)
(* The refinement BasicVM => BasicMachine on the program spaces of MC_Prog   *)
(* (DATA / READ / RESTORE placements, user functions, PRINT layout, INPUT    *)
(* statements x replies): both machines are fed the same commands (in the    *)
(* parser's normal form) and must agree at every prompt.                     *)
(***************************************************************************)
EXTENDS MC_Prog, VMRefine

CONSTANT VFuel
VARIABLE v
pvars == <<m, cmds, prog, n, v>>

VDo(vv, c) == VRunToWait(VApply(vv, c), VFuel)
RECURSIVE VFeed(_, _, _)
VFeed(vv, cs, i) == IF i > Len(cs) THEN vv ELSE VFeed(VDo(vv, cs[i]), cs, i + 1)
NormCmds(cs) == [i \in 1..Len(cs) |-> NormCmd(cs[i])]

PInit == prog \in ProgSpace /\ m = InitM /\ v = InitV /\ cmds = <<>> /\ n = -1
\* (a run the manual-level machine gives up on -- it does not end within its fuel -- is not
\* followed on the implementation-level machine either: nothing would be compared)
PEnter == /\ n = -1 /\ cmds' = NormCmds(LinesOf(prog))
          /\ m' = Feed(InitM, cmds', 1)
          /\ v' = IF m'.mode = "oom" THEN VOom(InitV, "not followed") ELSE VFeed(InitV, cmds', 1)
          /\ n' = 0 /\ UNCHANGED prog
PCmd == /\ n >= 0 /\ m.mode \in {"ready", "input"} /\ v.wait \in {"stopped", "input"}
        /\ LET t == TailCmd(prog, m, cmds, n) IN
           /\ t # <<>>
           /\ LET c == NormCmd(t[1]) IN
              /\ m' = Do(m, c, Fuel)
              /\ v' = IF m'.mode = "oom" THEN VOom(v, "not followed") ELSE VDo(v, c)
              /\ cmds' = Append(cmds, c) /\ n' = n + 1
        /\ UNCHANGED prog
PNext == PEnter \/ PCmd

\* once the manual-level machine has left its model (m.mode = "oom") nothing is compared any more
PRefines == (n >= 0 /\ m.mode # "oom" /\ v.wait # "oom") => Agree(m, v)
PDebug == PRefines \/ PrintT(<<"DBG", AgreeParts(m, v)>>)
\* the model of the implementation never leaves its own domain where the manual-level one stays inside
\* (except through a value the value model does not compute -- an inexact number used as a
\* subscript, say: the two machines meet such values at different points)
PInside == (n >= 0 /\ m.mode # "oom") => (v.wait # "oom" \/ v.why = "value")
=============================================================================
