CONSTANT Limit = 12
CONSTANT NLines = 3
CONSTANT Fuel = 80
CONSTANT Tset = 2
INIT Init
NEXT Next
INVARIANT LayoutInvariant
INVARIANT EmitSess
CHECK_DEADLOCK FALSE
