SPECIFICATION Spec
INVARIANT TypeOK
INVARIANT ProtocolSafe
INVARIANT CacheCoherent
PROPERTY Converges
CHECK_DEADLOCK FALSE
