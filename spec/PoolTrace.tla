----------------------------- MODULE PoolTrace -----------------------------
(***************************************************************************)
(* Trace validation of PoolLimit with the real limit: the harness drives    *)
(* the interpreter to the edge of its variable pool and records, for every  *)
(* command, what it was (bulk k / set x v / get x / clear), whether it was  *)
(* answered OUT OF MEMORY, the number of stored variables afterwards and    *)
(* (get) the value printed.  Each record must be the PoolLimit action into  *)
(* exactly the recorded pool size.                                          *)
(***************************************************************************)
EXTENDS PoolLimit, Sequences, Json, IOUtils, TLC

Rec == ndJsonDeserialize(IOEnv.TRACE)
VARIABLE l
tvars == <<pvars, l>>
E == Rec[l]

Step == /\ l <= Len(Rec)
        /\ CASE E.ev = "set" -> Set(E.x, E.v) /\ last' = E.resp /\ Card' = E.card
             [] E.ev = "bulk" -> Bulk(E.k) /\ last' = E.resp /\ Card' = E.card
             [] E.ev = "get" -> UNCHANGED pvars /\ vals[E.x] = E.val /\ Card = E.card
             [] E.ev = "clear" -> Clear /\ Card' = E.card
             [] OTHER -> FALSE
        /\ l' = l + 1
Accept == /\ l = Len(Rec) + 1 /\ PrintT(ToJson([T |-> "ACCEPT", n |-> Len(Rec)])) /\ l' = l + 1 /\ UNCHANGED pvars
Stuck == /\ l <= Len(Rec) /\ ~ENABLED Step
         /\ PrintT(ToJson([T |-> "STUCK", l |-> l, ev |-> E, pre |-> [card |-> Card, vals |-> vals, last |-> last]]))
         /\ l' = Len(Rec) + 2 /\ UNCHANGED pvars
TInit == Init /\ l = 1
TNext == Step \/ Accept \/ Stuck
=============================================================================
