------------------------------ MODULE MC_C06 ------------------------------
(***************************************************************************)
(* C06: variables and arrays are typed, zero-initialised, bounds-checked,   *)
(* never aliased.  In the abstract machine the store is a function from     *)
(* names <<letter, identifier, suffix, subscripts>> to values, so aliasing  *)
(* is impossible and an unassigned name reads as its default.  TLC explores *)
(* the state graph of the store under a menu of direct statements over a    *)
(* universe of confusable names; VarsTyped / InBounds are invariants; every *)
(* transition is a session, and after every command the whole store of the *)
(* real interpreter (probe) must equal the specified one.                   *)
(***************************************************************************)
EXTENDS AstB, Json

CONSTANTS Depth, Fuel, Wide

VARIABLES m, cmds
vars == <<m, cmds>>

Sc(id, sfx) == Var(SubSeq(id, 1, 1), id, sfx)
N(id, sfx) == [k |-> "var", l |-> id[1], id |-> id, sfx |-> sfx]
\* names are given as <<letter, id, suffix>>
VN(l, id, sfx) == Var(l, id, sfx)
AN(l, id, sfx, subs) == Arr(l, id, sfx, subs)

Scalars == { VN("A","A",""), VN("A","A","!"), VN("A","A","%"), VN("A","A","#"), VN("A","A","$"),
             VN("A","AB",""), VN("A","A1",""), VN("F","FA","") }
Vals == { LI(1), LS(5, 1), LStr(<<88>>) }
One == LI(1)
Elems == { AN("A","A","",<<LI(0)>>), AN("A","A","",<<LI(10)>>), AN("A","A","",<<LI(11)>>),
           AN("A","A","",<<LI(1), LI(2)>>), AN("A","A","",<<LI(2), LI(1)>>), AN("A","A","",<<LI(1), LI(11)>>),
           AN("A","A","",<<Un("neg", LI(1))>>), AN("A","A","",<<LS(5, 1)>>),
           AN("A","AB","",<<LI(1)>>), AN("A","A","%",<<LI(1)>>), AN("A","A","$",<<LI(1)>>),
           AN("A","A","",<<LI(5)>>), AN("A","A","",<<LI(6)>>), AN("A","A","",<<LI(3), LI(4)>>),
           AN("A","A","",<<LI(12), LI(1)>>), AN("B","B","",<<LI(1)>>), AN("B","B","$",<<LI(2)>>), AN("A","AB","$",<<LI(2)>>) }
Dims  == { AN("A","A","",<<LI(5)>>), AN("A","A","",<<LI(2), LI(3)>>), AN("A","A","%",<<LI(0)>>),
           AN("A","A","",<<LI(12), LI(1)>>), AN("A","A","",<<Un("neg", LI(1))>>) }
PrintAll == SPrint(<<PE(VN("A","A","")), PSep(";"), PE(VN("A","A","%")), PSep(";"), PE(VN("A","A","$")), PSep(";"),
                     PE(AN("A","A","",<<LI(1)>>)), PSep(";"), PE(VN("A","A1","")), PSep(";"), PE(VN("A","AB",""))>>)

Menu ==
  { CDirect(<<SLet(v, e)>>) : v \in Scalars, e \in Vals }
  \cup { CDirect(<<SLet(v, IF v.sfx = "$" THEN LStr(<<90>>) ELSE One)>>) : v \in Elems }
  \cup { CDirect(<<SLet(AN("A","A","$",<<LI(1)>>), LStr(<<83>>))>>), CDirect(<<SLet(AN("A","A","",<<LI(1),LI(2)>>), LI(0))>>),
         CDirect(<<SLet(VN("A","A",""), LI(0))>>) }
  \cup { CDirect(<<SDim(<<d>>)>>) : d \in Dims }
  \cup { CDirect(<<SErase(<<VN("A","A","")>>)>>), CDirect(<<SErase(<<VN("A","A","%")>>)>>),
         CDirect(<<SErase(<<VN("B","B","")>>)>>), CDirect(<<SErase(<<VN("B","B","$")>>)>>),
         \* use and erase an array whose name is the tail of another array's name, in one line
         CDirect(<<SLet(AN("B","B","",<<LI(1)>>), One), SErase(<<VN("B","B","")>>)>>),
         CDirect(<<SLet(AN("B","B","$",<<LI(2)>>), LStr(<<90>>)), SErase(<<VN("B","B","$")>>)>>) }
  \cup { CDirect(<<SDefType("I","A","A")>>), CDirect(<<SDefType("$","A","A")>>), CDirect(<<SDefType("D","A","B")>>),
         CDirect(<<SDefType("S","A","Z")>>), CDirect(<<SDefType("I","F","F")>>) }
  \cup { CDirect(<<SSwap(VN("A","A",""), VN("A","AB",""))>>), CDirect(<<SSwap(VN("A","A",""), VN("A","A","%"))>>),
         CDirect(<<SSwap(VN("A","A","$"), VN("A","A",""))>>),
         CDirect(<<SSwap(AN("A","A","",<<LI(0)>>), AN("A","A","",<<LI(10)>>))>>),
         CDirect(<<SSwap(VN("A","A","!"), VN("A","A",""))>>),
         CDirect(<<SSwap(VN("A","A",""), AN("A","A","",<<LI(11)>>))>>) }
  \cup { CDirect(<<PrintAll>>), CDirect(<<SClear>>) }

Init == m = InitM /\ cmds = <<>>
Next == \E c \in Menu :
          /\ Len(cmds) < Depth /\ m.mode = "ready"
          /\ m' = Do(m, c, Fuel) /\ cmds' = Append(cmds, c)
          /\ PrintT(ToJson([R |-> "sess", cmds |-> cmds']))

VarsTyped == \A k \in DOMAIN m.vars :
               /\ m.vars[k].t = TypeOfName(k[1], k[3], m.deft)
               /\ ~IsDefault(m.vars[k])
InBounds  == \A k \in DOMAIN m.vars : k[4] # <<>> =>
               /\ ArrId(k[2], k[3]) \in DOMAIN m.dims
               /\ Len(m.dims[ArrId(k[2], k[3])]) = Len(k[4])
               /\ \A i \in 1..Len(k[4]) : k[4][i] >= 0 /\ k[4][i] <= m.dims[ArrId(k[2], k[3])][i]
\* SWAP of mixed types changes nothing
SwapAtomic == [][ LET c == cmds'[Len(cmds')] IN
                  (c.stmts[1].k = "swap" /\ \E i \in 1..Len(m'.resp) : m'.resp[i].k = "err")
                     => (m'.vars = m.vars) ]_vars
View == <<m.vars, m.dims, m.deft, Len(cmds)>>
=============================================================================
