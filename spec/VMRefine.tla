------------------------------ MODULE VMRefine ------------------------------
(***************************************************************************)
(* What "the implementation-level machine (BasicVM) refines the manual-level *)
(* machine (BasicMachine)" means at a prompt: the user saw the same thing,   *)
(* and everything a later command can observe is the same.                   *)
(***************************************************************************)
EXTENDS BasicVM

\* the parameters of user functions are variables of their own in the implementation
\* ("FNA.X"); the manual-level machine binds them per call and keeps nothing
IsMangled(k) == \E i \in 1..Len(k[2]) : SubSeq(k[2], i, i) = "."

\* ---- agreement at a prompt
ErrMatch(ea, eb) == (ea.code = AnyErr \/ ea.code = eb.code) /\ (ea.ln = LineUnspec \/ ea.ln = eb.ln)
ErrsEq(EA, EB) == /\ \A ea \in EA : \E eb \in EB : ErrMatch(ea, eb)
                /\ \A eb \in EB : \E ea \in EA : ErrMatch(ea, eb)
ItemEq(ia, ib) ==
  /\ ia.k = ib.k
  /\ CASE ia.k = "out" -> ia.s = ib.s
       [] ia.k = "err" -> ErrsEq(ia.errs, ib.errs)
       [] ia.k = "list" -> ia.ln = ib.ln
       [] ia.k = "input" -> ia.s = ib.s /\ ia.caps = ib.caps
       [] OTHER -> TRUE
RespSameV(ra, rb) == Len(ra) = Len(rb) /\ \A i \in 1..Len(ra) : ItemEq(ra[i], rb[i])
\* optional output of the manual-level machine (see BasicMachine!Step): with or without it
RECURSIVE MergeV(_, _, _)
MergeV(r, i, acc) ==
  IF i > Len(r) THEN acc
  ELSE IF r[i].k = "out" /\ acc # <<>> /\ acc[Len(acc)].k = "out"
       THEN MergeV(r, i + 1, [acc EXCEPT ![Len(acc)] = [k |-> "out", s |-> @.s \o r[i].s]])
       ELSE MergeV(r, i + 1, Append(acc, r[i]))
WithOptV(r, keep) == LET sel == SelectSeq(r, LAMBDA x : keep \/ x.k # "opt") IN
                     MergeV([i \in 1..Len(sel) |-> IF sel[i].k = "opt" THEN [k |-> "out", s |-> sel[i].s] ELSE sel[i]], 1, <<>>)
RespEq(ra, rb) == RespSameV(WithOptV(ra, TRUE), rb) \/ RespSameV(WithOptV(ra, FALSE), rb)

StateEq(m, v) ==
  /\ \A k \in DOMAIN m.vars \cup DOMAIN v.vars : ~IsMangled(k) => Fetch(m.vars, m.deft, k) = Fetch(v.vars, v.deft, k)
  /\ m.dims = v.dims /\ m.deft = v.deft /\ DOMAIN m.fns = DOMAIN v.fns
  /\ m.dptr = v.dpos /\ m.tron = v.tron /\ m.col = v.col
  \* (a pending INPUT keeps its prompt, its flag and its count on the stack)
  \* (so does one that was interrupted while it waited, and can be continued)
  /\ (~m.ctlx /\ ~m.stale) =>
        LET extra == IF m.mode = "input" \/ v.ct = "Input" THEN 3 ELSE 0 IN
        /\ Len(v.stk) = m.nslots + extra /\ FramesOnly(v.stk, Len(v.stk) - extra)
        /\ v.ct = "Input" => /\ m.cont # NoCont /\ m.cont.ln # PastEnd /\ InList(CodeOf(m, m.cont.ln), m.cont.path)
                              /\ StmtAt(CodeOf(m, m.cont.ln), m.cont.path).k = "input"
  /\ ~m.contx => ((m.cont # NoCont) <=> (v.ct # "Stopped"))


Agree(m, v) ==
  /\ (m.mode = "input") <=> (v.wait = "input")
  /\ RespEq(m.resp, v.resp)
  /\ StateEq(m, v)

\* C19 at the level of the implementation model: while the stored program has compile-time errors
\* no opcode of it is ever about to execute
ErrorsBlock(v) == (v.ierr # {} /\ v.st \in {"Running", "InputRunning"} /\ v.wait = "") => v.pc >= v.entry

\* which part of the agreement fails (for diagnosing a counterexample)
AgreeParts(m, v) ==
  [mode |-> ((m.mode = "input") <=> (v.wait = "input")), resp |-> RespEq(m.resp, v.resp),
   vars |-> (\A k \in DOMAIN m.vars \cup DOMAIN v.vars : ~IsMangled(k) => Fetch(m.vars, m.deft, k) = Fetch(v.vars, v.deft, k)),
   dims |-> (m.dims = v.dims), deft |-> (m.deft = v.deft), fns |-> (DOMAIN m.fns = DOMAIN v.fns),
   dptr |-> (m.dptr = v.dpos), tron |-> (m.tron = v.tron), col |-> (m.col = v.col),
   stack |-> <<Len(v.stk), m.nslots, m.ctlx, m.stale>>, cont |-> <<m.cont, v.ct, m.contx>>,
   mresp |-> m.resp, vresp |-> v.resp]

\* ---- parser normal form of a DEF: parameters are renamed FNname.param (first letter F)
RECURSIVE MangleE(_, _, _)
MangleE(e, fid, ps) ==
  CASE e.k = "var" -> IF \E i \in 1..Len(ps) : ps[i].id = e.id /\ ps[i].sfx = e.sfx
                      THEN [e EXCEPT !.id = fid \o "." \o e.id, !.l = "F"] ELSE e
    [] e.k = "arr" -> [e EXCEPT !.sub = [i \in 1..Len(e.sub) |-> MangleE(e.sub[i], fid, ps)]]
    [] e.k \in {"un", "par"} -> [e EXCEPT !.a = MangleE(e.a, fid, ps)]
    [] e.k = "bin" -> [e EXCEPT !.a = MangleE(e.a, fid, ps), !.b = MangleE(e.b, fid, ps)]
    [] e.k \in {"call", "fn"} -> [e EXCEPT !.args = [i \in 1..Len(e.args) |-> MangleE(e.args[i], fid, ps)]]
    [] OTHER -> e
RECURSIVE NormStmts(_)
NormStmt(s) ==
  CASE s.k = "def" -> [s EXCEPT !.ps = [i \in 1..Len(s.ps) |-> [s.ps[i] EXCEPT !.id = s.id \o "." \o s.ps[i].id, !.l = "F"]],
                                !.e = MangleE(s.e, s.id, s.ps)]
    [] s.k = "if" -> [s EXCEPT !.th = NormStmts(s.th), !.el = NormStmts(s.el)]
    [] OTHER -> s
NormStmts(ss) == [i \in 1..Len(ss) |-> NormStmt(ss[i])]
NormCmd(c) == IF c.k \in {"line", "direct"} THEN [c EXCEPT !.stmts = NormStmts(c.stmts)] ELSE c
=============================================================================
