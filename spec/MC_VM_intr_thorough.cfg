CONSTANTS
  Limit = 65535
  NLines = 3
  MaxSteps = 60
  MaxV = 300
  Tset = 1
  WithIntr = TRUE
INIT VInit
NEXT VNextA
INVARIANTS Refines NoRunWithErrors VTypeOK VVarsTyped Linked FramesAtLineStart SliceInvariant
CHECK_DEADLOCK FALSE
