CONSTANTS
  Limit = 65535
  NLines = 3
  MaxSteps = 60
  MaxV = 120
  Tset = 1
  WithIntr = TRUE
  IntrWin = 60
INIT VInit
NEXT VNextA
INVARIANTS Refines NoRunWithErrors VTypeOK VVarsTyped Linked FramesAtLineStart SliceInvariant
CHECK_DEADLOCK FALSE
