CONSTANT Limit = 100
CONSTANT Depth = 2
CONSTANT Fuel = 60
CONSTANT VFuel = 3000
CONSTANT WithRenum = FALSE
INIT GInit
NEXT GNext
INVARIANT GRefines
INVARIANT CacheCoherent
INVARIANT NoRunWithErrors
VIEW GView
CHECK_DEADLOCK FALSE
