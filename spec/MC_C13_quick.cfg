CONSTANT Limit = 12
CONSTANT NLines = 2
CONSTANT MaxSteps = 30
CONSTANT MaxInts = 2
CONSTANT Fuel = 60
INIT Init
NEXT Next
INVARIANT Transparent
CHECK_DEADLOCK FALSE
