------------------------------ MODULE MC_C11F ------------------------------
(***************************************************************************)
(* C11, number formatting: TLC enumerates Single and Double values          *)
(* n / 2^e over a grid of mantissas (boundaries of the digit-count          *)
(* switches, powers of two and ten, 24-bit mantissas) and exponents.  For   *)
(* each, the specification gives the shape of the printed text (sign slot,  *)
(* digits, trailing blank) and, where the exact decimal expansion is short, *)
(* the text itself (NumText).  The harness prints the value in the real     *)
(* interpreter and checks shape, text, read-back and minimality.            *)
(***************************************************************************)
EXTENDS BasicValues, Json
CONSTANT Wide
VARIABLE c
Mants == {0, 1, 2, 3, 5, 7, 9, 10, 11, 99, 100, 101, 255, 256, 999, 1000, 1001, 4095, 9999, 10000, 32767, 32768, 65535,
          99999, 100000, 999999, 1000000, 1000001, 9999999, 10000000, 12345678, 16777215, 8388607, 8388609, 3355443, 13421773}
         \cup (IF Wide THEN {x \in 1..16777215 : x % 7919 = 0} ELSE {})
Exps == 0..10
Cases == [t : {"S", "D"}, n : Mants \cup {-m : m \in Mants}, e : Exps]
Val(cs) == MkF(cs.t, cs.n, cs.e)
Init == c \in Cases
Next == UNCHANGED c
\* the shape: sign slot, digits, trailing blank -- on the specified text where there is one
Shape == LET v == Val(c) IN (v.x /\ FmtOK(v)) =>
           LET t == NumText(v) IN t[1] = (IF v.n < 0 THEN 45 ELSE 32) /\ Len(t) >= 2
Emit == LET v == Val(c) IN
        v.x => PrintT(ToJson([R |-> "fmt", t |-> v.t, n |-> v.n, e |-> v.e,
                              hasp |-> (FmtOK(v) /\ NDigits(v) <= 6), p |-> (IF FmtOK(v) THEN NumText(v) \o <<32>> ELSE <<>>)]))
=============================================================================
