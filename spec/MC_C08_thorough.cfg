CONSTANT Full = TRUE
INIT Init
NEXT Next
INVARIANT Checked
INVARIANT Emit
CHECK_DEADLOCK FALSE
