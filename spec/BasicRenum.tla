---------------------------- MODULE BasicRenum ----------------------------
(***************************************************************************)
(* RENUM [new][,old][,step]  (manual: statements/renum): lines below `old`  *)
(* keep their numbers, the others become new, new+step, ... in the same     *)
(* order; every line-number operand is rewritten; the order of lines cannot *)
(* change; a failing RENUM leaves the program untouched.                    *)
(***************************************************************************)
EXTENDS BasicProg

MaxLineNo == 65529

\* the renumbering of a set of line numbers, and whether it is admissible: every new
\* number is a line number and the map is strictly order-preserving (hence injective)
RenumMap(lines, new, old, step) ==
  LET moved == {n \in lines : n >= old}
      f == [n \in lines |-> IF n \in moved THEN new + step * Cardinality({x \in moved : x < n}) ELSE n]
  IN  [f  |-> f,
       ok |-> /\ \A n \in lines : f[n] >= 0 /\ f[n] <= MaxLineNo
              /\ \A a \in lines : \A b \in lines : a < b => f[a] < f[b]]

RN(f, n) == IF n \in DOMAIN f THEN f[n] ELSE n

RECURSIVE RewriteStmt(_, _), RewriteStmts(_, _)
RewriteStmt(s, f) ==
  CASE s.k \in {"goto", "gosub"} -> [s EXCEPT !.n = RN(f, s.n)]
    [] s.k \in {"ongoto", "ongosub"} -> [s EXCEPT !.ns = [i \in 1..Len(s.ns) |-> RN(f, s.ns[i])]]
    [] s.k \in {"restore", "run"} -> IF s.n >= 0 THEN [s EXCEPT !.n = RN(f, s.n)] ELSE s
    [] s.k \in {"list", "delete"} ->
         (CASE s.form = "one"   -> [s EXCEPT !.a = RN(f, s.a), !.b = RN(f, s.a)]
            [] s.form = "from"  -> [s EXCEPT !.a = RN(f, s.a)]
            [] s.form = "to"    -> [s EXCEPT !.b = RN(f, s.b)]
            [] s.form = "range" -> [s EXCEPT !.a = RN(f, s.a), !.b = RN(f, s.b)]
            [] OTHER -> s)
    [] s.k = "if" -> [s EXCEPT !.th = RewriteStmts(s.th, f), !.el = RewriteStmts(s.el, f)]
    [] OTHER -> s
RewriteStmts(ss, f) == [i \in 1..Len(ss) |-> RewriteStmt(ss[i], f)]

\* the renumbered source listing (line number -> statements as entered)
RenumSrc(src, f) ==
  [n2 \in {f[n] : n \in DOMAIN src} |->
     RewriteStmts(src[CHOOSE n \in DOMAIN src : f[n] = n2], f)]
=============================================================================
