CONSTANT Wide = FALSE
INIT Init
NEXT Next
INVARIANT Laws
INVARIANT Emit
CHECK_DEADLOCK FALSE
