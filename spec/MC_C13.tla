------------------------------ MODULE MC_C13 ------------------------------
(***************************************************************************)
(* C13 on the specification: interrupt, STOP and CONT are transparent.      *)
(* Every program of the bounded grammar is run on the abstract machine with *)
(* an interrupt allowed before every statement (up to MaxInts of them),     *)
(* each optionally followed by an inspecting direct statement, then CONT;   *)
(* STOP statements are continued as well.  When the run is over, the text   *)
(* printed by the program and the final store must equal those of the       *)
(* reference run: the same program with STOP replaced by a remark, executed *)
(* in one go without interruption.                                          *)
(***************************************************************************)
EXTENDS AstB, Json

CONSTANTS NLines, MaxSteps, MaxInts, Fuel

A == Var("A", "A", "")
I == Var("I", "I", "")
L1 == 10   L2 == 20   L3 == 30
LineNos == <<10, 20, 30, 40>>
PA == SPrint(<<PE(A), PSep(";")>>)
PS(s) == SPrint(<<PE(LStr(s)), PSep(";")>>)

Templates ==
  { <<SLet(A, Bin("add", A, LI(1)))>>, <<PA>>, <<PS(<<88>>), SPrint(<<>>)>>,
    <<SGoto(L3)>>, <<SGosub(L3), PS(<<71>>)>>, <<SReturn>>,
    <<SOnGosub(A, <<L3>>), PS(<<79>>)>>,
    <<SIf(Bin("lt", A, LI(2)), <<PS(<<84>>)>>, <<PS(<<70>>)>>)>>,
    <<SIfShort(Bin("lt", A, LI(2)), <<SGoto(L1)>>, <<>>)>>,
    <<SFor(I, LI(1), LI(2)), PA>>, <<SNext(<<>>)>>,
    <<SWhile(Bin("lt", A, LI(2)))>>, <<SWend>>,
    <<SStop>>, <<PS(<<83>>), SStop, PA>>, <<SEnd>>,
    <<SRead(<<A>>), PA>>, <<SData(<<MkI(4), MkI(5)>>)>>,
    <<SInput(TRUE, FALSE, <<>>, <<A>>), PA>> }

VARIABLES m, prog, steps, nints, acc, insp
vars == <<m, prog, steps, nints, acc, insp>>

RECURSIVE EnterAll(_, _, _)
EnterAll(mm, p, i) == IF i > NLines THEN mm ELSE EnterAll(EnterLine(mm, LineNos[i], p[i]), p, i + 1)

\* the text a command printed, without READY. and without line feeds
RECURSIVE OutText(_, _)
OutText(resp, i) == IF i > Len(resp) THEN <<>>
                    ELSE (IF resp[i].k = "out" THEN resp[i].s ELSE <<>>) \o OutText(resp, i + 1)
RECURSIVE Strip(_)
Strip(s) == IF s = <<>> THEN <<>>
            ELSE IF Len(s) >= 7 /\ SubSeq(s, 1, 7) = ReadyText THEN Strip(SubSeq(s, 8, Len(s)))
            ELSE IF Head(s) = 10 THEN Strip(Tail(s))
            ELSE <<Head(s)>> \o Strip(Tail(s))
Printed(mm) == Strip(OutText(mm.resp, 1))

\* the reference: STOP is a remark; run in one go, answering every INPUT with "7"

NoStop(ss) == [i \in 1..Len(ss) |-> IF ss[i].k = "stop" THEN SRem ELSE ss[i]]
RECURSIVE RefRun(_, _, _)
RefRun(mm, out, fuel) ==
  LET r == RunToWait(mm, Fuel) IN
  IF r.mode = "input" /\ fuel > 0 THEN RefRun(Reply(r, <<55>>), out \o Printed(r), fuel - 1)
  ELSE [m |-> r, out |-> out \o Printed(r)]
RefOf(p) == RefRun(EnterDirect(EnterAll(InitM, [i \in 1..NLines |-> NoStop(p[i])], 1), <<SRun(-1)>>), <<>>, 6)

Init == /\ prog \in [1..NLines -> Templates]
        /\ m = EnterDirect(EnterAll(InitM, prog, 1), <<SRun(-1)>>)
        /\ steps = 0 /\ nints = 0 /\ acc = <<>> /\ insp = FALSE

Run  == /\ m.mode = "run" /\ steps < MaxSteps
        /\ m' = Step(m) /\ steps' = steps + 1 /\ UNCHANGED <<prog, nints, acc, insp>>
\* CTRL-C before any statement of the running program, or at an INPUT prompt
\* (the program is running: control is inside it, not in the direct line that started it)
Intr == /\ m.mode \in {"run", "input"} /\ nints < MaxInts /\ ~insp
        /\ IF m.mode = "input" THEN InProgram(m.inp) ELSE InProgram(Resolve(m, m.pc))
        /\ m' = Interrupt(m) /\ nints' = nints + 1 /\ UNCHANGED <<prog, steps, acc, insp>>
\* at the prompt with a continuable program: look at a variable (once), then CONT
Inspect == /\ m.mode = "ready" /\ m.cont # NoCont /\ ~m.contx /\ ~insp
           /\ acc' = acc \o Printed(m)
           /\ m' = RunToWait(EnterDirect(m, <<PA>>), Fuel) /\ insp' = TRUE /\ UNCHANGED <<prog, steps, nints>>
Cont == /\ m.mode = "ready" /\ m.cont # NoCont /\ ~m.contx
        /\ acc' = (IF insp THEN acc ELSE acc \o Printed(m))
        /\ m' = EnterDirect(m, <<SCont>>) /\ insp' = FALSE /\ UNCHANGED <<prog, steps, nints>>
Answer == /\ m.mode = "input"
          /\ acc' = acc \o Printed(m)
          /\ m' = Reply(m, <<55>>) /\ UNCHANGED <<prog, steps, nints, insp>>
Next == Run \/ Intr \/ Inspect \/ Cont \/ Answer

Done == m.mode = "ready" /\ (m.cont = NoCont \/ m.contx) /\ ~insp

\* an END that can be continued is continued by the schedule above but not by the reference;
\* the comparison is made for programs whose reference run did not pass a continuable END
Transparent ==
  Done => LET r == RefOf(prog) IN
          (r.m.mode = "ready" /\ r.m.cont = NoCont /\ ~r.m.contx /\ m.mode = "ready" /\ ~m.contx) =>
             /\ acc \o Printed(m) = r.out
             /\ m.vars = r.m.vars /\ m.dims = r.m.dims /\ m.dptr = r.m.dptr
=============================================================================
