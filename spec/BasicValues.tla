--------------------------- MODULE BasicValues ---------------------------
(***************************************************************************)
(* Values, types, operators and built-in functions of 64K BASIC, written   *)
(* from the manual (src/doc/chapter_1.rs, chapter_3.rs), not from the       *)
(* implementation.  Pure operators only; no state.                          *)
(*                                                                          *)
(* A value is a record [t, n, e, s, x]:                                     *)
(*   t = "I"  16-bit Integer n                                              *)
(*   t = "S" / "D"  Single / Double holding the dyadic rational n / 2^e     *)
(*                  (normalised: e = 0 or n odd); x = FALSE means "a value  *)
(*                  of this type whose numeric content the model does not   *)
(*                  compute" (inexact results such as 10/3, SQR(2))         *)
(*   t = "$"  String, s = sequence of Unicode code points                   *)
(*   t = "E"  a BASIC error, n = error code (AnyErr = unspecified code)     *)
(*   t = "?"  outside the model (the manual or the model does not fix the   *)
(*            outcome); cases that reach it are discarded, never failed     *)
(***************************************************************************)
EXTENDS Integers, Sequences, FiniteSets, TLC

V(t, n, e, s, x) == [t |-> t, n |-> n, e |-> e, s |-> s, x |-> x]
MkI(n)    == V("I", n, 0, <<>>, TRUE)
MkStr(s)  == V("$", 0, 0, s, TRUE)
Approx(t) == V(t, 0, 0, <<>>, FALSE)
Err(c)    == V("E", c, 0, <<>>, TRUE)
Unknown   == V("?", 0, 0, <<>>, FALSE)

\* error codes (src/lang/error.rs ErrorCode)
EBreak == 0        ENextWithoutFor == 1   ESyntax == 2      EReturnWithoutGosub == 3
EOutOfData == 4    EIllegalFn == 5        EOverflow == 6    EOutOfMemory == 7
EUndefLine == 8    ESubscript == 9        ERedim == 10      EDivZero == 11
EIllegalDirect == 12  ETypeMismatch == 13 EStringTooLong == 15  ECantContinue == 17
EUndefFn == 18     ERedo == 21            ELineBuf == 23    EWhileNoWend == 29
EWendNoWhile == 30 EInternal == 51
AnyErr == -1      \* "some BASIC error": the manual does not fix the code

IsErr(v)  == v.t = "E"
IsUnk(v)  == v.t = "?"
IsNum(v)  == v.t \in {"I", "S", "D"}
IsStr(v)  == v.t = "$"
IsBad(v)  == v.t \in {"E", "?"}

MinInt == -32768
MaxInt == 32767
InInt(n) == MinInt <= n /\ n <= MaxInt

MaxMant == 16777216      \* 2^24: integers below it are exact in f32 and f64
MaxMantD == 1073741824   \* 2^30: Doubles carry more (the bound is TLC's 32-bit arithmetic)
MaxExp  == 10
Abs(n)  == IF n < 0 THEN -n ELSE n
Sgn(n)  == IF n < 0 THEN -1 ELSE IF n = 0 THEN 0 ELSE 1
Min(a, b) == IF a < b THEN a ELSE b
Max(a, b) == IF a > b THEN a ELSE b
Pow2(k) == 2 ^ k

RECURSIVE NormN(_, _), NormE(_, _)
NormN(n, e) == IF e > 0 /\ n % 2 = 0 THEN NormN(n \div 2, e - 1) ELSE n
NormE(n, e) == IF e > 0 /\ n % 2 = 0 THEN NormE(n \div 2, e - 1) ELSE e

\* a float of type t with value n / 2^e, or Approx when it leaves the exact domain
MkF(t, n, e) ==
  LET nn == NormN(n, e)  ee == NormE(n, e)
  IN  IF Abs(nn) >= (IF t = "D" THEN MaxMantD ELSE MaxMant) \/ ee > MaxExp THEN Approx(t) ELSE V(t, nn, ee, <<>>, TRUE)

\* products are guarded so that TLC's 32-bit integers never overflow
MulFits(a, b) == a = 0 \/ b = 0 \/ Abs(a) <= 1073741823 \div Abs(b)

Wider(t1, t2) == IF t1 = "D" \/ t2 = "D" THEN "D" ELSE "S"

(***************************************************************************)
(* Conversions                                                              *)
(***************************************************************************)
\* floor to a mathematical integer (only for exact numbers)
FloorOf(v) == IF v.t = "I" THEN v.n ELSE v.n \div Pow2(v.e)
TruncOf(v) == IF v.t = "I" THEN v.n
              ELSE IF v.n >= 0 THEN v.n \div Pow2(v.e) ELSE -((-v.n) \div Pow2(v.e))

\* CINT / assignment to an Integer / operands of \ MOD and the logical operators:
\* "floor, then range check" (manual: CINT(-9.9) = -10)
ToInt(v) ==
  CASE IsBad(v) -> v
    [] v.t = "$" -> Err(ETypeMismatch)
    [] ~v.x      -> Unknown
    [] OTHER     -> LET f == FloorOf(v) IN IF InInt(f) THEN MkI(f) ELSE Err(EOverflow)

ToFloat(t, v) ==
  CASE IsBad(v) -> v
    [] v.t = "$" -> Err(ETypeMismatch)
    [] ~v.x      -> Approx(t)
    [] OTHER     -> MkF(t, v.n, v.e)

StrLimit == 255

\* LET: convert to the type of the target, or fail; never stores another type
Assign(ty, v) ==
  CASE IsBad(v) -> v
    [] ty = "I" -> ToInt(v)
    [] ty \in {"S", "D"} -> ToFloat(ty, v)
    [] ty = "$" -> IF v.t # "$" THEN Err(ETypeMismatch)
                   ELSE IF Len(v.s) > StrLimit THEN Err(EStringTooLong) ELSE v

Default(ty) == CASE ty = "I" -> MkI(0) [] ty = "$" -> MkStr(<<>>) [] OTHER -> V(ty, 0, 0, <<>>, TRUE)
IsDefault(v) == (v.t = "$" /\ v.s = <<>>) \/ (IsNum(v) /\ v.x /\ v.n = 0)

(***************************************************************************)
(* 16-bit Integer arithmetic: exact result in range, or an error            *)
(***************************************************************************)
Chk16(n)   == IF InInt(n) THEN MkI(n) ELSE Err(EOverflow)
Add16(a, b) == Chk16(a + b)
Sub16(a, b) == Chk16(a - b)
Mul16(a, b) == Chk16(a * b)             \* |a*b| <= 2^30, safe in TLC
Neg16(a)    == Chk16(-a)
Abs16(a)    == Chk16(Abs(a))
\* truncating quotient, remainder with the sign of the dividend
QuoT(a, b)  == Sgn(a) * Sgn(b) * (Abs(a) \div Abs(b))
IDiv16(a, b) == IF b = 0 THEN Err(EDivZero) ELSE Chk16(QuoT(a, b))
Mod16(a, b)  == IF b = 0 THEN Err(EDivZero) ELSE Chk16(a - b * QuoT(a, b))
RECURSIVE PowChk(_, _, _)
\* acc * a^k with an overflow test after every multiplication
PowChk(acc, a, k) == IF k = 0 THEN MkI(acc)
                     ELSE IF ~InInt(acc * a) THEN Err(EOverflow)
                     ELSE PowChk(acc * a, a, k - 1)
\* a ^ k, k >= 0.  |a| <= 1 is handled without iterating
Pow16(a, k) == CASE a = 0  -> MkI(IF k = 0 THEN 1 ELSE 0)
                 [] a = 1  -> MkI(1)
                 [] a = -1 -> MkI(IF k % 2 = 0 THEN 1 ELSE -1)
                 [] k > 15 -> Err(EOverflow)          \* |a| >= 2 and 2^16 > 32767
                 [] OTHER  -> PowChk(1, a, k)

\* bitwise operators on 16-bit two's complement
U16(n) == IF n < 0 THEN n + 65536 ELSE n
S16(u) == IF u >= 32768 THEN u - 65536 ELSE u
RECURSIVE BitsOp(_, _, _, _)
\* op: 1 = and, 2 = or, 3 = xor, over k bits of unsigned a, b
BitsOp(op, a, b, k) ==
  IF k = 0 THEN 0
  ELSE LET x == a % 2  y == b % 2
           z == CASE op = 1 -> IF x = 1 /\ y = 1 THEN 1 ELSE 0
                  [] op = 2 -> IF x = 1 \/ y = 1 THEN 1 ELSE 0
                  [] OTHER  -> IF x # y THEN 1 ELSE 0
       IN  z + 2 * BitsOp(op, a \div 2, b \div 2, k - 1)
And16(a, b) == S16(BitsOp(1, U16(a), U16(b), 16))
Or16(a, b)  == S16(BitsOp(2, U16(a), U16(b), 16))
Xor16(a, b) == S16(BitsOp(3, U16(a), U16(b), 16))
Not16(a)    == -a - 1
Imp16(a, b) == Or16(Not16(a), b)
Eqv16(a, b) == Not16(Xor16(a, b))

(***************************************************************************)
(* Exact rational arithmetic on dyadics  n / 2^e                            *)
(***************************************************************************)
NumN(v) == v.n
NumE(v) == IF v.t = "I" THEN 0 ELSE v.e
\* compare two exact numbers: -1, 0, 1
CmpNum(a, b) ==
  LET ea == NumE(a)  eb == NumE(b)  m == Max(ea, eb)
      x == a.n * Pow2(m - ea)  y == b.n * Pow2(m - eb)
  IN  IF x < y THEN -1 ELSE IF x = y THEN 0 ELSE 1

FAdd(t, a, b) ==
  LET ea == NumE(a)  eb == NumE(b)  m == Max(ea, eb)
  IN  MkF(t, a.n * Pow2(m - ea) + b.n * Pow2(m - eb), m)
FSub(t, a, b) ==
  LET ea == NumE(a)  eb == NumE(b)  m == Max(ea, eb)
  IN  MkF(t, a.n * Pow2(m - ea) - b.n * Pow2(m - eb), m)
FMul(t, a, b) ==
  IF ~MulFits(a.n, b.n) THEN Approx(t)
  ELSE IF a.n * b.n = 0 /\ (a.n < 0 \/ b.n < 0) THEN Unknown      \* IEEE -0: not modelled
  ELSE MkF(t, a.n * b.n, NumE(a) + NumE(b))
\* (na / 2^ea) / (nb / 2^eb) = na * 2^eb / (nb * 2^ea); exact iff nb divides na * 2^(eb+k)
RECURSIVE DivSearch(_, _, _, _, _)
DivSearch(t, num, den, e, k) ==       \* num * 2^k / den / 2^(e + k)
  IF k > MaxExp \/ ~MulFits(num, Pow2(k)) THEN Approx(t)
  ELSE IF (num * Pow2(k)) % den = 0 THEN MkF(t, (num * Pow2(k)) \div den, e + k)
  ELSE DivSearch(t, num, den, e, k + 1)
FDiv(t, a, b) ==
  IF b.n = 0 THEN Approx(t)                     \* inf / nan: content not modelled
  ELSE IF a.n = 0 THEN (IF b.n < 0 THEN Unknown ELSE V(t, 0, 0, <<>>, TRUE))
  ELSE LET s   == Sgn(a.n) * Sgn(b.n)
           num == Abs(a.n) * Pow2(NumE(b))       \* < 2^24 * 2^10, fits
           den == Abs(b.n)
           r   == DivSearch(t, num, den, NumE(a), 0)
       IN  IF r.x THEN MkF(t, s * r.n, r.e) ELSE r

(***************************************************************************)
(* Binary and unary operators with the promotion rules of chapter 1         *)
(***************************************************************************)
ArithOps == {"add", "sub", "mul", "div"}
IntOps   == {"idiv", "mod"}
LogicOps == {"and", "or", "xor", "imp", "eqv"}
RelOps   == {"eq", "ne", "lt", "le", "gt", "ge"}
BinOps   == ArithOps \cup IntOps \cup LogicOps \cup RelOps \cup {"pow"}
UnOps    == {"neg", "not", "pos"}

RECURSIVE LexCmp(_, _)
LexCmp(s, u) == IF s = <<>> THEN (IF u = <<>> THEN 0 ELSE -1)
                ELSE IF u = <<>> THEN 1
                ELSE IF Head(s) < Head(u) THEN -1
                ELSE IF Head(s) > Head(u) THEN 1
                ELSE LexCmp(Tail(s), Tail(u))

Truth(b) == MkI(IF b THEN -1 ELSE 0)
RelHolds(op, c) == CASE op = "eq" -> c = 0  [] op = "ne" -> c # 0 [] op = "lt" -> c < 0
                     [] op = "le" -> c <= 0 [] op = "gt" -> c > 0 [] op = "ge" -> c >= 0

\* integer power by repeated multiplication on exact floats, k >= 0
RECURSIVE FPowK(_, _, _, _)
FPowK(t, acc, a, k) == IF k = 0 \/ ~acc.x THEN acc ELSE FPowK(t, FMul(t, acc, a), a, k - 1)

BinOp(op, a, b) ==
  CASE IsBad(a) -> a
    [] IsBad(b) -> b
    [] op \in RelOps ->
         IF IsStr(a) /\ IsStr(b) THEN Truth(RelHolds(op, LexCmp(a.s, b.s)))
         ELSE IF IsStr(a) \/ IsStr(b) THEN Err(ETypeMismatch)
         ELSE IF ~a.x \/ ~b.x THEN Unknown
         ELSE Truth(RelHolds(op, CmpNum(a, b)))
    [] op = "add" /\ IsStr(a) /\ IsStr(b) -> MkStr(a.s \o b.s)
    [] op \in IntOps \cup LogicOps ->
         LET x == ToInt(a)  y == ToInt(b)
         IN  IF IsErr(x) THEN x ELSE IF IsErr(y) THEN y
             ELSE IF IsUnk(x) \/ IsUnk(y) THEN Unknown
             ELSE (CASE op = "idiv" -> IDiv16(x.n, y.n)
                    [] op = "mod"  -> Mod16(x.n, y.n)
                    [] op = "and"  -> MkI(And16(x.n, y.n))
                    [] op = "or"   -> MkI(Or16(x.n, y.n))
                    [] op = "xor"  -> MkI(Xor16(x.n, y.n))
                    [] op = "imp"  -> MkI(Imp16(x.n, y.n))
                    [] op = "eqv"  -> MkI(Eqv16(x.n, y.n)))
    [] IsStr(a) \/ IsStr(b) -> Err(ETypeMismatch)
    [] op = "pow" ->
         IF a.t = "I" /\ b.t = "I" /\ b.n >= 0 THEN Pow16(a.n, b.n)
         ELSE LET t == IF a.t = "I" /\ b.t = "I" THEN "S"
                       ELSE Wider(IF a.t = "I" THEN "S" ELSE a.t, IF b.t = "I" THEN "S" ELSE b.t)
              IN  IF ~a.x \/ ~b.x THEN Approx(t)
                  ELSE IF NumE(b) = 0 /\ b.n >= 0 /\ b.n <= 24 /\ a.n # 0
                       THEN FPowK(t, V(t, 1, 0, <<>>, TRUE), MkF(t, a.n, NumE(a)), b.n)
                  ELSE Approx(t)
    [] a.t = "I" /\ b.t = "I" /\ op # "div" ->
         (CASE op = "add" -> Add16(a.n, b.n) [] op = "sub" -> Sub16(a.n, b.n)
           [] op = "mul" -> Mul16(a.n, b.n))
    [] OTHER ->
         LET t == IF a.t = "I" /\ b.t = "I" THEN "S"
                  ELSE Wider(IF a.t = "I" THEN "S" ELSE a.t, IF b.t = "I" THEN "S" ELSE b.t)
         IN  IF ~a.x \/ ~b.x THEN Approx(t)
             ELSE (CASE op = "add" -> FAdd(t, a, b) [] op = "sub" -> FSub(t, a, b)
                    [] op = "mul" -> FMul(t, a, b) [] op = "div" -> FDiv(t, a, b))

UnOp(op, a) ==
  CASE IsBad(a) -> a
    [] op = "pos" -> a          \* unary plus is the identity (any type)
    [] op = "not" -> LET x == ToInt(a) IN IF IsBad(x) THEN x ELSE MkI(Not16(x.n))
    [] op = "neg" -> (CASE a.t = "$" -> Err(ETypeMismatch)
                       [] a.t = "I" -> Neg16(a.n)
                       [] ~a.x      -> a
                       [] a.n = 0   -> Unknown                   \* IEEE -0: not modelled
                       [] OTHER     -> V(a.t, -a.n, a.e, <<>>, TRUE))

\* the type every operator application must have when it succeeds (C02)
ResType(op, t1, t2) ==
  CASE op \in RelOps \cup IntOps \cup LogicOps -> "I"
    [] op = "add" /\ t1 = "$" /\ t2 = "$" -> "$"
    [] op = "div" /\ t1 = "I" /\ t2 = "I" -> "S"
    [] op = "pow" /\ t1 = "I" /\ t2 = "I" -> "I/S"   \* Integer for exponent >= 0, else Single
    [] t1 = "I" /\ t2 = "I" -> "I"
    [] OTHER -> Wider(IF t1 = "I" THEN "S" ELSE t1, IF t2 = "I" THEN "S" ELSE t2)

(***************************************************************************)
(* Number formatting (PRINT, STR$): sign slot, digits; exact domain only    *)
(***************************************************************************)
Digit(d) == 48 + d
RECURSIVE DigitsOf(_)
DigitsOf(n) == IF n < 10 THEN <<Digit(n)>> ELSE DigitsOf(n \div 10) \o <<Digit(n % 10)>>
RECURSIVE PadDigits(_, _)
PadDigits(n, w) == IF w = 0 THEN <<>> ELSE PadDigits(n \div 10, w - 1) \o <<Digit(n % 10)>>
Pow5(k)  == 5 ^ k
Pow10(k) == 10 ^ k
MaxFmtExp == 6
\* digits of |n| / 2^e as "iii.fff" (no sign); defined when e <= MaxFmtExp and the scaled
\* numerator fits.  Exact dyadics with few digits print as their exact expansion,
\* which is also the shortest decimal that reads back (<= 6 significant digits).
FmtFits(v) == v.x /\ (v.t = "I" \/ (v.e <= MaxFmtExp /\ MulFits(Abs(v.n), Pow5(v.e))))
MagDigits(v) ==
  IF v.t = "I" \/ v.e = 0 THEN DigitsOf(Abs(v.n))
  ELSE LET N == Abs(v.n) * Pow5(v.e)
       IN  DigitsOf(N \div Pow10(v.e)) \o <<46>> \o PadDigits(N % Pow10(v.e), v.e)
NDigits(v) == LET d == MagDigits(v) IN Cardinality({i \in 1..Len(d) : d[i] # 46})
\* text of a number without the trailing blank (STR$): " 12" / "-12" / " 0.5"
NumText(v) ==
  IF ~FmtFits(v) THEN <<>>
  ELSE (IF v.n < 0 THEN <<45>> ELSE <<32>>) \o MagDigits(v)
\* The exact expansion of a dyadic is "the shortest decimal that reads back" when it has at most
\* 6 (Single) / 15 (Double) significant digits: decimals that short are in one-to-one correspondence
\* with the floats they round to, so no shorter decimal reads back to the same value.  With more
\* digits a shorter decimal may exist (-54689.8125! prints as -54689.813); those values are outside
\* the formatting model (the harness checks their printed form by read-back and minimality instead).
FmtOK(v) == IsNum(v) /\ FmtFits(v) /\ NDigits(v) <= (IF v.t = "D" THEN 15 ELSE IF v.t = "S" THEN 6 ELSE 9)

(***************************************************************************)
(* Numeric text: INPUT fields, VAL                                          *)
(***************************************************************************)
IsBlank(c) == c = 32 \/ c = 9
RECURSIVE TrimL(_), TrimR(_)
TrimL(s) == IF s # <<>> /\ IsBlank(Head(s)) THEN TrimL(Tail(s)) ELSE s
TrimR(s) == IF s # <<>> /\ IsBlank(s[Len(s)]) THEN TrimR(SubSeq(s, 1, Len(s) - 1)) ELSE s
Trim(s) == TrimR(TrimL(s))
Unquote(s) == IF Len(s) >= 2 /\ s[1] = 34 /\ s[Len(s)] = 34 THEN SubSeq(s, 2, Len(s) - 1) ELSE s
IsDig(c) == c >= 48 /\ c <= 57
IsAlpha(c) == (c >= 65 /\ c <= 90) \/ (c >= 97 /\ c <= 122)
Upper(c) == IF c >= 97 /\ c <= 122 THEN c - 32 ELSE c
RECURSIVE DigitsVal(_, _, _)
DigitsVal(s, i, acc) == IF i > Len(s) THEN acc ELSE DigitsVal(s, i + 1, acc * 10 + (s[i] - 48))
\* A numeric field (INPUT) / numeric text (VAL): decimal with optional sign, fraction and
\* exponent (E or D), or the & (octal) and &H (hexadecimal) forms; the empty field is 0.
\* Result: a Double (exact when it is a short dyadic, else Approx), an Integer for the radix
\* forms, Err(TYPE MISMATCH) for text that is not a number, Unknown where the manual is silent
\* (INF / NAN words, type suffixes, signs inside radix forms).
AllDig(s) == \A i \in 1..Len(s) : IsDig(s[i])
IsHexDig(c) == IsDig(c) \/ (Upper(c) >= 65 /\ Upper(c) <= 70)
HexVal(c) == IF IsDig(c) THEN c - 48 ELSE Upper(c) - 55
RECURSIVE RadixVal(_, _, _, _)
RadixVal(s, i, r, acc) == IF i > Len(s) THEN acc ELSE RadixVal(s, i + 1, r, acc * r + HexVal(s[i]))
IndexOf(s, P(_)) == LET hits == {i \in 1..Len(s) : P(s[i])} IN
                    IF hits = {} THEN 0 ELSE CHOOSE i \in hits : \A k \in hits : i <= k
ParseDecimal(f) ==
  LET sgn  == IF f # <<>> /\ f[1] \in {43, 45} THEN 1 ELSE 0
      neg  == sgn = 1 /\ f[1] = 45
      body == SubSeq(f, sgn + 1, Len(f))
      ei   == IndexOf(body, LAMBDA c : Upper(c) \in {69, 68})
      mant == IF ei = 0 THEN body ELSE SubSeq(body, 1, ei - 1)
      ex   == IF ei = 0 THEN <<>> ELSE SubSeq(body, ei + 1, Len(body))
      esg  == IF ex # <<>> /\ ex[1] \in {43, 45} THEN 1 ELSE 0
      eneg == esg = 1 /\ ex[1] = 45
      edig == SubSeq(ex, esg + 1, Len(ex))
      di   == IndexOf(mant, LAMBDA c : c = 46)
      ip   == IF di = 0 THEN mant ELSE SubSeq(mant, 1, di - 1)
      fp   == IF di = 0 THEN <<>> ELSE SubSeq(mant, di + 1, Len(mant))
      wellformed == /\ AllDig(ip) /\ AllDig(fp) /\ (ip # <<>> \/ fp # <<>>)
                    /\ (ei = 0 \/ (edig # <<>> /\ AllDig(edig)))
  IN  IF ~wellformed THEN Err(ETypeMismatch)
      ELSE IF Len(ip) + Len(fp) > 7 \/ Len(edig) > 1 THEN Unknown
      ELSE LET Dg == DigitsVal(ip \o fp, 1, 0)
               ev == (IF eneg THEN -1 ELSE 1) * DigitsVal(edig, 1, 0) - Len(fp)     \* value = Dg * 10^ev
               sg == IF neg THEN -1 ELSE 1
           IN  IF Dg = 0 THEN (IF neg THEN Unknown ELSE V("D", 0, 0, <<>>, TRUE))
               ELSE IF ev >= 0 THEN (IF ev > 7 \/ ~MulFits(Dg, Pow10(ev)) THEN Unknown ELSE MkF("D", sg * Dg * Pow10(ev), 0))
               ELSE IF -ev > 9 THEN Unknown
               ELSE LET k == -ev  g == Pow5(k) IN
                    IF Dg % g # 0 THEN Approx("D")              \* not a dyadic rational: inexact in binary
                    ELSE MkF("D", sg * (Dg \div g), k)
ParseField(f) ==
  IF f = <<>> THEN MkI(0)
  ELSE IF f[1] = 38 THEN        \* & octal, &H hexadecimal
    (LET hex == Len(f) >= 2 /\ Upper(f[2]) = 72
         ds  == SubSeq(f, IF hex THEN 3 ELSE 2, Len(f))
         ok  == ds # <<>> /\ \A i \in 1..Len(ds) : IF hex THEN IsHexDig(ds[i]) ELSE (ds[i] >= 48 /\ ds[i] <= 55)
     IN  IF ds # <<>> /\ ds[1] \in {43, 45} THEN Unknown
         ELSE IF ~ok THEN Err(ETypeMismatch)
         ELSE IF Len(ds) > 6 THEN Unknown
         ELSE LET n == RadixVal(ds, 1, IF hex THEN 16 ELSE 8, 0) IN
              IF n <= MaxInt THEN MkI(n) ELSE Unknown)
  ELSE IF f[Len(f)] \in {33, 35, 37} THEN Unknown            \* a type suffix: the manual is silent
  ELSE LET b == IF f[1] \in {43, 45} THEN Tail(f) ELSE f IN
       IF b # <<>> /\ Upper(b[1]) \in {73, 78} THEN Unknown    \* INF / NAN words
       ELSE ParseDecimal(f)

\* VAL: the number written by the longest prefix of the (trimmed) text that is a number; 0 when
\* no prefix is one
RECURSIVE ValPrefix(_, _)
ValPrefix(s, n) == IF n = 0 THEN MkI(0)
                   ELSE LET r == ParseField(SubSeq(s, 1, n)) IN
                        IF IsUnk(r) THEN Unknown ELSE IF IsErr(r) THEN ValPrefix(s, n - 1) ELSE r
ValOf(s) == LET t == Trim(s) IN ValPrefix(t, Len(t))

(***************************************************************************)
(* Built-in functions (chapter 3).  Args is a sequence of values.           *)
(***************************************************************************)
Spaces(k) == [i \in 1..k |-> 32]
Take(s, k) == SubSeq(s, 1, Min(k, Len(s)))
Drop(s, k) == SubSeq(s, Min(k, Len(s)) + 1, Len(s))

\* a count / position argument: floor to a mathematical integer (no 16-bit limit stated)
ArgInt(v) ==
  CASE IsBad(v) -> v
    [] v.t = "$" -> Err(ETypeMismatch)
    [] ~v.x -> Unknown
    [] OTHER -> MkI(FloorOf(v))          \* may be outside 16 bits; only .n is used

RECURSIVE FindAt(_, _, _)
\* least position p >= from with pat occurring in s at p, else 0
FindAt(s, pat, from) ==
  IF from + Len(pat) - 1 > Len(s) THEN 0
  ELSE IF SubSeq(s, from, from + Len(pat) - 1) = pat THEN from
  ELSE FindAt(s, pat, from + 1)

IsScalarCode(c) == c >= 0 /\ c <= 1114111 /\ ~(c >= 55296 /\ c <= 57343)

HexDigit(d) == IF d < 10 THEN 48 + d ELSE 55 + d
RECURSIVE RadixDigits(_, _)
RadixDigits(n, r) == IF n < r THEN <<HexDigit(n)>> ELSE RadixDigits(n \div r, r) \o <<HexDigit(n % r)>>

FirstBad(args) == LET bad == {i \in 1..Len(args) : IsBad(args[i])}
                  IN  IF bad = {} THEN 0 ELSE CHOOSE i \in bad : \A j \in bad : i <= j

NumFn1(f, a) ==       \* numeric functions of one argument
  CASE a.t = "$" -> Err(ETypeMismatch)
    [] f = "ABS" -> IF a.t = "I" THEN Abs16(a.n) ELSE IF ~a.x THEN a ELSE V(a.t, Abs(a.n), a.e, <<>>, TRUE)
    [] f = "SGN" -> IF ~a.x THEN Unknown ELSE MkI(Sgn(a.n))
    [] f = "INT" -> IF a.t = "I" \/ ~a.x THEN a ELSE MkF(a.t, FloorOf(a), 0)
    [] f = "FIX" -> IF a.t = "I" \/ ~a.x THEN a
                    ELSE IF a.n < 0 /\ TruncOf(a) = 0 THEN Unknown      \* IEEE -0
                    ELSE MkF(a.t, TruncOf(a), 0)
    [] f = "CINT" -> ToInt(a)
    [] f = "CSNG" -> ToFloat("S", a)
    [] f = "CDBL" -> ToFloat("D", a)
    [] f \in {"SQR", "EXP", "LOG", "SIN", "COS", "TAN", "ATN"} ->
         Approx(IF a.t = "D" THEN "D" ELSE "S")       \* type only; accuracy not modelled

Call(f, args) ==
  LET fb == FirstBad(args)  n == Len(args) IN
  IF fb # 0 THEN args[fb]
  ELSE CASE
     f \in {"ABS","SGN","INT","FIX","CINT","CSNG","CDBL","SQR","EXP","LOG","SIN","COS","TAN","ATN"} ->
        NumFn1(f, args[1])
  [] f = "LEN" -> IF ~IsStr(args[1]) THEN Err(ETypeMismatch) ELSE MkI(Len(args[1].s))
  [] f = "LEFT$" ->
        LET k == ArgInt(args[2]) IN
        IF ~IsStr(args[1]) THEN Err(ETypeMismatch) ELSE IF IsBad(k) THEN k
        ELSE IF k.n < 0 THEN Err(AnyErr) ELSE MkStr(Take(args[1].s, k.n))
  [] f = "RIGHT$" ->
        LET k == ArgInt(args[2])  s == args[1].s IN
        IF ~IsStr(args[1]) THEN Err(ETypeMismatch) ELSE IF IsBad(k) THEN k
        ELSE IF k.n < 0 THEN Err(AnyErr) ELSE MkStr(Drop(s, Len(s) - Min(k.n, Len(s))))
  [] f = "MID$" ->
        LET p == ArgInt(args[2])  s == args[1].s
            k == IF n = 3 THEN ArgInt(args[3]) ELSE MkI(StrLimit + 1) IN
        IF ~IsStr(args[1]) THEN Err(ETypeMismatch) ELSE IF IsBad(p) THEN p ELSE IF IsBad(k) THEN k
        ELSE IF p.n <= 0 \/ k.n < 0 THEN Err(AnyErr)
        ELSE IF p.n > Len(s) THEN MkStr(<<>>)
        ELSE MkStr(Take(Drop(s, p.n - 1), k.n))
  [] f = "INSTR" ->
        LET st == IF n = 3 THEN ArgInt(args[1]) ELSE MkI(1)
            x == args[n - 1]  y == args[n] IN
        IF IsBad(st) THEN st ELSE IF ~IsStr(x) \/ ~IsStr(y) THEN Err(ETypeMismatch)
        ELSE IF st.n = 0 THEN Err(AnyErr)
        ELSE IF st.n < 0 THEN Unknown                  \* manual silent
        ELSE IF st.n > Len(x.s) THEN (IF y.s = <<>> THEN Unknown ELSE MkI(0))
        ELSE IF y.s = <<>> THEN MkI(st.n)
        ELSE MkI(FindAt(x.s, y.s, st.n))
  \* INKEY$ polls the keyboard; in every session of this verification no key is ever pressed
  [] f = "INKEY$" -> MkStr(<<>>)
  [] f = "ASC" ->
        IF ~IsStr(args[1]) THEN Err(ETypeMismatch)
        ELSE IF args[1].s = <<>> THEN Err(EIllegalFn)
        ELSE LET c == args[1].s[1] IN IF c <= MaxInt THEN MkI(c) ELSE MkF("S", c, 0)
  [] f = "CHR$" ->
        LET c == ArgInt(args[1]) IN
        IF IsBad(c) THEN c ELSE IF ~IsScalarCode(c.n) THEN Err(AnyErr) ELSE MkStr(<<c.n>>)
  [] f = "STRING$" ->
        LET k == ArgInt(args[1])  y == args[2]
            c == IF IsStr(y) THEN (IF y.s = <<>> THEN Err(AnyErr) ELSE MkI(y.s[1])) ELSE ArgInt(y) IN
        IF IsBad(k) THEN k ELSE IF k.n < 0 \/ k.n > StrLimit THEN Err(AnyErr)
        ELSE IF IsBad(c) THEN c ELSE IF ~IsScalarCode(c.n) THEN Err(AnyErr)
        ELSE MkStr([i \in 1..k.n |-> c.n])
  [] f = "SPC" ->
        LET k == ArgInt(args[1]) IN
        IF IsBad(k) THEN k ELSE IF k.n < 0 \/ k.n > StrLimit THEN Err(AnyErr) ELSE MkStr(Spaces(k.n))
  [] f = "STR$" ->
        IF IsStr(args[1]) THEN Err(ETypeMismatch)
        ELSE IF ~FmtOK(args[1]) THEN Unknown ELSE MkStr(NumText(args[1]))
  [] f = "VAL" -> IF ~IsStr(args[1]) THEN Err(ETypeMismatch) ELSE ValOf(args[1].s)
  [] f \in {"HEX$", "OCT$"} ->
        LET k == ToInt(args[1]) IN
        IF IsBad(k) THEN k ELSE MkStr(RadixDigits(U16(k.n), IF f = "HEX$" THEN 16 ELSE 8))
  [] OTHER -> Unknown

(***************************************************************************)
(* Precedence table (chapter 1), used to render with minimal parentheses    *)
(***************************************************************************)
Prec(op) == CASE op = "pow" -> 13 [] op \in {"neg", "pos"} -> 12 [] op \in {"mul", "div"} -> 11
              [] op = "idiv" -> 10 [] op = "mod" -> 9 [] op \in {"add", "sub"} -> 8
              [] op \in RelOps -> 7 [] op = "not" -> 6 [] op = "and" -> 5 [] op = "or" -> 4
              [] op = "xor" -> 3 [] op = "imp" -> 2 [] op = "eqv" -> 1
=============================================================================
