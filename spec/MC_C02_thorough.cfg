INIT Init
NEXT Next
INVARIANT TypeLaw
INVARIANT Emit
CHECK_DEADLOCK FALSE
