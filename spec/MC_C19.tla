------------------------------ MODULE MC_C19 ------------------------------
(***************************************************************************)
(* C19: compile-time diagnostics point into the listed line and block       *)
(* execution.  Programs of three lines (line numbers of 1, 2 and 5 digits)  *)
(* with one injected fault -- a dangling line number in every referencing   *)
(* form and operand position, unmatched / crossed WHILE and WEND, token     *)
(* level damage -- preceded on its line by nothing, an ASCII statement, or  *)
(* statements with multi-byte string literals.  The specification computes  *)
(* each diagnostic's code, line and character range in the listed text      *)
(* (exactly the missing number; exactly the keyword).  Session: RUN, LIST   *)
(* (underlines), direct statements that do not enter the program, GOTO n,   *)
(* GOSUB n, RUN n, CONT.  NoRun: with a compile-time error no program       *)
(* statement executes, whatever way the program is entered.                 *)
(***************************************************************************)
EXTENDS AstB, Json

CONSTANTS Fuel, Wide

VARIABLES m, cmds, prog, n
vars == <<m, cmds, prog, n>>

A == Var("A", "A", "")
C9 == Bin("eq", A, LI(9))
PS(s) == SPrint(<<PE(LStr(s)), PSep(";")>>)
Nums == <<7, 10, 12345>>
L(i) == Nums[i]

Prefixes == { <<>>, <<PS(<<233, 128512>>)>>, <<SLet(A, LI(1))>> } \cup (IF Wide THEN { <<PS(<<65>>), SLet(A, LI(1))>> } ELSE {})
RefFaults(ok) ==
  { <<SGoto(99)>>, <<SGosub(99)>>, <<SIfShort(C9, <<SGoto(99)>>, <<>>)>>, <<SIfShort(C9, <<SGoto(ok)>>, <<SGoto(99)>>)>>,
    <<SIf(C9, <<SGoto(99)>>, <<PS(<<120>>)>>)>>, <<SOnGoto(A, <<ok, 99>>)>>, <<SOnGosub(A, <<99, ok>>)>>,
    <<SOnGoto(A, <<98, 65529>>)>>, <<SRestore(99)>>, <<SIf(C9, <<SRun(99)>>, <<>>)>>, <<SGoto(0)>> }
WFaults == { <<SWhile(A)>>, <<SWend>>, <<SWend, SWhile(A)>>, <<SWhile(A), SWend, SWend>>, <<SWhile(A), SWhile(C9), SWend>> }
Damage == { <<80,82,73,78,84,32,49,43>>,        \* PRINT 1+
            <<71,79,84,79>>,                     \* GOTO
            <<65,61>>,                           \* A=
            <<70,79,82,32,73>>,                  \* FOR I
            <<78,69,88,84,32,53>>,               \* NEXT 5
            <<73,70,32,65>>,                     \* IF A
            <<41>>,                              \* )
            <<80,82,73,78,84,32,40,49>>,         \* PRINT (1
            <<68,73,77,32,65,40>> }              \* DIM A(
BadLine(pre, dmg) == <<[k |-> "bad", txt |-> "", code |-> ESyntax,
                        cp |-> (IF pre = <<>> THEN <<>> ELSE ShowStmts(pre, 1) \o <<58>>) \o dmg]>>

FaultLines(ok) == { pre \o f : pre \in Prefixes, f \in RefFaults(ok) \cup WFaults }
                  \cup { BadLine(pre, d) : pre \in Prefixes, d \in Damage }
Clean1 == <<PS(<<83>>), SLet(A, LI(5))>>
Clean3 == <<PS(<<69>>), SEnd>>
\* the fault goes to the first, second or third line
ProgSpace == UNION { { [pos |-> ps, f |-> f] : f \in FaultLines(IF ps = 3 THEN L(1) ELSE L(3)) } : ps \in 1..3 }
LinesOf(p) == CASE p.pos = 1 -> <<CLine(L(1), p.f), CLine(L(2), Clean1), CLine(L(3), Clean3)>>
                [] p.pos = 2 -> <<CLine(L(1), Clean1), CLine(L(2), p.f), CLine(L(3), Clean3)>>
                [] OTHER     -> <<CLine(L(1), Clean1), CLine(L(2), Clean3), CLine(L(3), p.f)>>
Rng(k, a, b, form) == [k |-> k, a |-> a, b |-> b, form |-> form, bare |-> (form = "all")]
TailCmds == << CDirect(<<SRun(-1)>>), CDirect(<<Rng("list", 0, 65529, "all")>>),
           CDirect(<<SPrint(<<PE(LI(1))>>)>>), CDirect(<<SLet(A, LI(2)), SPrint(<<PE(A)>>)>>),
           CDirect(<<SGoto(L(1))>>), CDirect(<<SGosub(L(2))>>), CDirect(<<SRun(L(3))>>), CDirect(<<SCont>>),
           CDirect(<<SOnGoto(A, <<L(1), L(2)>>)>>), CDirect(<<SPrint(<<PE(LI(3))>>), SGoto(L(1))>>),
           \* direct statements that loop without entering the program still work
           CDirect(<<SLet(A, LI(0)), SWhile(Bin("lt", A, LI(3))), SLet(A, Bin("add", A, LI(1))), SWend, SPrint(<<PE(A)>>)>>),
           CDirect(<<SWhile(Bin("lt", A, LI(5))), SLet(A, Bin("add", A, LI(1))), SWend, SFor(Var("I","I",""), LI(1), LI(2)), SNext(<<>>), SPrint(<<PE(A)>>)>>) >>

RECURSIVE Feed(_, _, _)
Feed(mm, cs, i) == IF i > Len(cs) THEN mm ELSE Feed(Do(mm, cs[i], Fuel), cs, i + 1)

Init == prog \in ProgSpace /\ m = InitM /\ cmds = <<>> /\ n = -1
Enter == n = -1 /\ cmds' = LinesOf(prog) /\ m' = Feed(InitM, cmds', 1) /\ n' = 0 /\ UNCHANGED prog
Cmd == /\ n >= 0 /\ n < Len(TailCmds) /\ m.mode = "ready"
       /\ m' = Do(m, TailCmds[n + 1], Fuel) /\ cmds' = Append(cmds, TailCmds[n + 1]) /\ n' = n + 1 /\ UNCHANGED prog
Next == Enter \/ Cmd
Done == n = Len(TailCmds)
EmitSess == Done => PrintT(ToJson([R |-> "sess", cmds |-> cmds, oom |-> (m.mode = "oom")]))

\* ---- properties of the specification
HasFault == n >= 0 => m.perr # {}
\* every diagnostic names an existing line and a range inside its listed text; UNDEFINED LINE
\* covers exactly the digits of the missing number, WHILE / WEND exactly the keyword
DiagInside ==
  \A e \in m.perr :
    /\ e.ln \in DOMAIN m.src
    /\ e.c0 >= 0 =>
         LET t == ShowLine(e.ln, m.src[e.ln])  w == SubSeq(t, e.c0 + 1, e.c1) IN
         /\ e.c0 < e.c1 /\ e.c1 <= Len(t)
         /\ e.code = EUndefLine => (\A i \in 1..Len(w) : w[i] >= 48 /\ w[i] <= 57) /\ DigitsVal(w, 1, 0) \notin DOMAIN m.src
         /\ e.code = EWhileNoWend => w = T_WHILE
         /\ e.code = EWendNoWhile => w = T_WEND
\* no program statement executes: nothing but diagnostics and the prompt is printed, and the
\* store changes only through the direct statement A=2
OnlyReady(resp) == \A i \in 1..Len(resp) : resp[i].k = "out" => resp[i].s \in {ReadyText, <<10>> \o ReadyText}
NoRun == [][ (n >= 0 /\ n' = n + 1 /\ n + 1 \notin {2, 3, 4, 11, 12}) =>
               \* (RUN itself clears the variables before the jump is refused)
               (OnlyReady(m'.resp) \/ n + 1 = 10) /\ (m'.vars = m.vars \/ m'.vars = EmptyFn) ]_vars
\* PRINT 3:GOTO n prints 3 and is then refused
NoRun10 == [][ (n >= 0 /\ n' = n + 1 /\ n + 1 = 10) =>
                 \A i \in 1..Len(m'.resp) : m'.resp[i].k = "out" => m'.resp[i].s \in {ReadyText, <<32, 51, 32, 10>>} ]_vars
=============================================================================
