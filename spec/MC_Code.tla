------------------------------ MODULE MC_Code ------------------------------
(***************************************************************************)
(* Binding BasicVM to the code.  A record is one session as the real         *)
(* interpreter saw it: its commands (lines and direct statements as the      *)
(* interpreter's own parser understood them, replies, interrupts), for each  *)
(* direct command the opcodes its compiler and linker produced, and for each *)
(* command (pc, stack depth, run state, print column, DATA pointer, number   *)
(* of stored variables) after every single execute(1) until the interpreter  *)
(* waited again, with the step at which an interrupt was delivered.  The     *)
(* model is walked through the same commands, the same number of steps, the  *)
(* same interrupts; the harness compares opcode by opcode and step by step.  *)
(***************************************************************************)
EXTENDS BasicVM, Json, IOUtils

Recs == ndJsonDeserialize(IOEnv.CODE)

VARIABLE i

RECURSIVE RunI(_, _, _, _, _)
\* at most n steps; an interrupt before step number intat (counted from 0)
RunI(v, n, intat, j, acc) ==
  IF j = n \/ v.wait # "" THEN [v |-> v, tr |-> acc]
  ELSE LET v0 == IF j = intat THEN VInterrupt(v) ELSE v
           w == VExecute(v0) IN
       RunI(w, n, intat, j + 1, Append(acc, <<w.pc, Len(w.stk), w.st, w.col, w.dpos, Cardinality(DOMAIN w.vars)>>))

CanCompile(c) == c.k \notin {"line", "direct"} \/ Compilable(c.stmts)

RECURSIVE Walk(_, _, _, _)
Walk(v, cs, j, acc) ==
  IF j > Len(cs) \/ v.wait = "oom" THEN acc
  ELSE LET c == cs[j] IN
       IF ~CanCompile(c) THEN Append(acc, [k |-> "outside"])
       ELSE LET v1 == VApply(v, c)
                r == IF c.k = "line" THEN [v |-> v1, tr |-> <<>>] ELSE RunI(v1, Len(c.vm), c.intat, 0, <<>>)
                item == IF c.k = "direct"
                        THEN [k |-> c.k, ops |-> v1.P.link.ops, ndata |-> Len(v1.P.link.data), daddr |-> v1.P.daddr,
                              errs |-> Cardinality(v1.derr) + Cardinality(v1.ierr), vm |-> r.tr]
                        ELSE [k |-> c.k, vm |-> r.tr] IN
            Walk(r.v, cs, j + 1, Append(acc, item))

\* (the records are visited as successor states: those are evaluated by TLC's worker threads,
\* whose stacks can be made deep enough for a few hundred chained steps)
Init == i = 0
Next == i = 0 /\ i' \in {j \in 1..Len(Recs) : Recs[j].ok}

EmitCode == i = 0 \/ PrintT(ToJson([R |-> "code", id |-> Recs[i].id, items |-> Walk(InitV, Recs[i].cmds, 1, <<>>)]))
=============================================================================
