CONSTANT Limit = 100
CONSTANT Depth = 3
CONSTANT Fuel = 60
CONSTANT WithRenum = TRUE
INIT Init
NEXT Next
INVARIANT TypeOK
PROPERTY EditCancels
PROPERTY OnlyEditsEdit
VIEW View
CHECK_DEADLOCK FALSE
