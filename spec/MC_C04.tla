------------------------------ MODULE MC_C04 ------------------------------
(***************************************************************************)
(* C04: what runs is always the program that LIST shows.                    *)
(* The abstract machine has no compile cache: RUN interprets the listing.   *)
(* TLC explores the state graph of the machine under edit histories (an     *)
(* optional run that stops inside a FOR inside a GOSUB, then insertions,    *)
(* replacements, deletions, bare numbers of absent lines, DELETE hit/miss,  *)
(* NEW, direct statements, intermediate RUNs) followed by RUN, RUN n, CONT, *)
(* RETURN, NEXT, GOTO n.  Every transition of the graph is printed as a     *)
(* session (the path to the state plus the action), executed by the real    *)
(* interpreter and validated against the specification.                     *)
(***************************************************************************)
EXTENDS AstB, Json

CONSTANTS Depth, Fuel, WithRenum

VARIABLES m, cmds, nh
vars == <<m, cmds, nh>>

A == Var("A", "A", "")
I == Var("I", "I", "")
PS(s) == SPrint(<<PE(LStr(s)), PSep(";")>>)
PA == SPrint(<<PE(A), PSep(";")>>)

StopStmt(x) == CASE x = "stop" -> SStop [] x = "end" -> SEnd
                 [] x = "err" -> SPrint(<<PE(Bin("idiv", LI(1), LI(0)))>>)
Base(x) == << CLine(10, <<SLet(A, Bin("add", A, LI(1))), SGosub(30), PS(<<82>>)>>),
              CLine(20, <<PS(<<69>>), SEnd>>),
              CLine(30, <<SFor(I, LI(1), LI(2)), PS(<<83>>), StopStmt(x)>>),
              CLine(40, <<SNext(<<>>), SReturn>>) >>

Edits == { CLine(20, <<PS(<<66>>), SEnd>>),        \* replace
           CLine(20, <<>>),                         \* delete an existing line
           CLine(15, <<>>),                         \* bare number of an absent line
           CLine(15, <<PS(<<78>>)>>),               \* insert
           CLine(40, <<SNext(<<>>), PS(<<90>>), SReturn>>),
           CDirect(<<[k |-> "delete", a |-> 20, b |-> 20, form |-> "one", bare |-> FALSE]>>),
           CDirect(<<[k |-> "delete", a |-> 16, b |-> 17, form |-> "range", bare |-> FALSE]>>),
           CDirect(<<SNew>>) }
        \cup (IF WithRenum THEN { CDirect(<<[k |-> "renum", new |-> 100, old |-> 0, step |-> 10, args |-> "100"]>>),
                                  CDirect(<<[k |-> "renum", new |-> 10, old |-> 0, step |-> 10, args |-> ""]>>) } ELSE {})
\* (a direct statement that is refused at compile time leaves nothing behind either)
Directs == { CDirect(<<SLet(A, LI(7))>>), CDirect(<<PA>>), CDirect(<<SRun(-1)>>), CDirect(<<SGoto(500)>>) }
Endings == { CDirect(<<SRun(-1)>>), CDirect(<<SRun(20)>>), CDirect(<<SCont>>), CDirect(<<SReturn>>),
             CDirect(<<SNext(<<>>)>>), CDirect(<<SGoto(20)>>), CDirect(<<SRun(100)>>) }

RECURSIVE Feed(_, _, _)
Feed(mm, cs, i) == IF i > Len(cs) THEN mm ELSE Feed(Do(mm, cs[i], Fuel), cs, i + 1)

\* a program that deletes one of its own lines while it runs
SelfEdit == << CLine(10, <<PS(<<65>>), [k |-> "delete", a |-> 30, b |-> 30, form |-> "one", bare |-> FALSE], PS(<<66>>)>>),
               CLine(20, <<PS(<<67>>)>>), CLine(30, <<PS(<<68>>)>>) >>
Prefixes == { Base(x) \o <<CDirect(<<SRun(-1)>>)>> : x \in {"stop", "end", "err"} } \cup { Base("stop") }
            \cup { SelfEdit \o <<CDirect(<<SRun(-1)>>)>> }

Init == \E pre \in Prefixes : m = Feed(InitM, pre, 1) /\ cmds = pre /\ nh = 0

Act(c, h) == /\ m.mode = "ready"
             /\ m' = Do(m, c, Fuel)
             /\ cmds' = Append(cmds, c)
             /\ nh' = nh + h
             /\ PrintT(ToJson([R |-> "sess", cmds |-> cmds', final |-> (h = 99)]))
Next == \/ \E c \in Edits \cup Directs : nh < Depth /\ Act(c, 1)
        \/ \E c \in Endings : nh <= Depth /\ Act(c, 99)

IsEdit(c) == c.k = "line" \/ (c.k = "direct" /\ c.stmts[1].k \in {"delete", "new", "renum"})
\* an edit cancels the continuation and every frame pointing into the old program
EditCancels == [][ m'.lst # m.lst => (m'.cont = NoCont /\ m'.ctl = <<>>) ]_vars
\* only editing commands change the stored program
\* (unless the stored program itself contains an editing statement and is running)
SelfEditing(mm) == \E n \in DOMAIN mm.lst : \E i \in 1..Len(mm.lst[n]) : mm.lst[n][i].k \in {"delete", "new", "renum"}
OnlyEditsEdit == [][ m'.lst # m.lst => (IsEdit(cmds'[Len(cmds')]) \/ SelfEditing(m)) ]_vars
\* a program with compile-time errors never runs; the machine always comes back to the prompt
TypeOK == m.mode \in {"ready", "oom"}
View == <<m, nh>>
=============================================================================
