CONSTANT MaxLen = 4
CONSTANT Sig = {49, 46, 69, 68, 101, 65, 71, 79, 84, 34, 39, 60, 61, 62, 32, 38, 33, 63, 58}
INIT Init
NEXT Next
INVARIANT ModelRoundTrip
INVARIANT Emit
CHECK_DEADLOCK FALSE
