---------------------------- MODULE BasicMachine ----------------------------
(***************************************************************************)
(* The manual-level abstract machine of 64K BASIC: statement-by-statement   *)
(* interpretation of the listing, with the interactive shell (entering      *)
(* lines, direct statements, INPUT replies, interrupt, CONT).  This is the  *)
(* oracle "compiled execution" is compared with.                            *)
(*                                                                          *)
(* The machine is one record m; Step(m) executes one (normalised) statement *)
(* and Feed(m, cmd) delivers one user action.  Observable output of the     *)
(* current command accumulates in m.resp, a sequence of items               *)
(*   [k |-> "out", s |-> code points]      printed text (adjacent merged)   *)
(*   [k |-> "err", errs |-> set of [code, ln]]                               *)
(*   [k |-> "list", ln |-> n]              one LIST line                    *)
(*   [k |-> "input", s |-> prompt, caps |-> BOOLEAN]                         *)
(***************************************************************************)
EXTENDS BasicRenum

CONSTANT Limit         \* size of each memory pool (65535 in the real interpreter)

ReadyText == <<82, 69, 65, 68, 89, 46, 10>>        \* "READY." LF
MaxLine == 65529                                   \* the largest line number
NoCont == Pos(PastEnd, <<0>>)
LineUnspec == -9                                   \* error line the manual does not fix

EmptyFn == [x \in {} |-> 0]

InitM == [ lst   |-> EmptyFn,          \* listing: line number -> normalised statements
           src   |-> EmptyFn,          \* listing: line number -> statements as entered (for LIST)
           dir   |-> <<>>,             \* the direct line being executed
           dirsrc |-> <<>>,            \* ... as entered
           dgen  |-> 0,                \* how many direct lines have been entered
           pairs |-> {},               \* WHILE/WEND mates of the program
           dpairs |-> {},              \* ... of the direct line
           perr  |-> {},               \* compile-time errors of the program
           data  |-> <<>>,             \* DATA values of the program, in source order
           mode  |-> "ready",          \* ready | run | input | oom (outside the model)
           pc    |-> NoCont,
           ctl   |-> <<>>,             \* FOR and GOSUB frames, one stack
           nslots |-> 0,               \* = Slots(ctl), maintained incrementally
           vars  |-> EmptyFn, dims |-> EmptyFn, deft |-> DeftInit, fns |-> EmptyFn,
           dptr  |-> 0,
           col   |-> 0,
           tron  |-> FALSE, ltr |-> -1,
           cont  |-> NoCont,           \* where CONT resumes; NoCont = can't continue
           contx |-> FALSE,            \* TRUE: continuation state not fixed by the manual
           ctlx  |-> FALSE,            \* TRUE: frames not fixed by the manual (after an error)
           stale |-> FALSE,            \* TRUE: an edit discarded frames; how the interpreter
                                       \* disposes of them is its own business until the next
                                       \* reset -- only that they can never be resumed is specified
           inp   |-> NoCont,           \* the INPUT statement waiting for a reply (or whose reply is being assigned)
           flds  |-> <<>>,             \* the fields of the reply being assigned
           lcur  |-> -1,               \* LIST in progress: the next line number to show (-1: none)
           contl |-> -1,               \* ... of an interrupted LIST that CONT resumes
           resp  |-> <<>>,
           why   |-> "" ]

CodeOf(m, ln) == IF ln = Direct THEN m.dir ELSE m.lst[ln]
InProgram(p) == p.ln >= 0

\* ---- output
Emit(m, text) ==
  IF text = <<>> THEN m
  ELSE LET n == Len(m.resp)
           lastLF == {i \in 1..Len(text) : text[i] = 10}
           col2 == IF lastLF = {} THEN m.col + Len(text)
                   ELSE Len(text) - (CHOOSE i \in lastLF : \A j \in lastLF : j <= i)
           r2 == IF n > 0 /\ m.resp[n].k = "out"
                 THEN [m.resp EXCEPT ![n] = [k |-> "out", s |-> @.s \o text]]
                 ELSE Append(m.resp, [k |-> "out", s |-> text])
       IN  [m EXCEPT !.resp = r2, !.col = col2]
Item(m, it) == [m EXCEPT !.resp = Append(@, it)]
FreshLine(m) == IF m.col > 0 THEN Emit(m, <<10>>) ELSE m

GoReady(m) == [Emit(FreshLine(m), ReadyText) EXCEPT !.mode = "ready"]
OutOfModel(m, why) == [m EXCEPT !.mode = "oom", !.why = why]

\* the line a runtime error is reported in
ErrLine(v, p) == IF v.e = 1 THEN LineUnspec ELSE IF InProgram(p) THEN p.ln ELSE -1

\* a runtime error: report it and return to the prompt.  In a program the frames stay
\* (what CONT does after an error is not defined by the manual: contx); an error in a
\* direct statement abandons everything that was pending.
Fail(m, p, v) ==
  IF IsUnk(v) THEN OutOfModel(m, "value")
  ELSE LET m1 == Item(FreshLine(m), [k |-> "err", errs |-> {[code |-> v.n, ln |-> ErrLine(v, p)]}])
           m2 == IF InProgram(p) THEN [m1 EXCEPT !.contx = TRUE, !.cont = NoCont, !.ctlx = TRUE]
                 ELSE [m1 EXCEPT !.ctl = <<>>, !.nslots = 0, !.cont = NoCont, !.contx = FALSE, !.ctlx = FALSE, !.stale = FALSE]
       IN  GoReady(m2)

\* ---- memory pools
FrameSlots(f) == IF f.k = "for" THEN 4 ELSE 1
Slots(ctl) == 4 * Cardinality({i \in 1..Len(ctl) : ctl[i].k = "for"})
              + Cardinality({i \in 1..Len(ctl) : ctl[i].k # "for"})

\* ---- variables
St(m) == [vars |-> m.vars, dims |-> m.dims, deft |-> m.deft, fns |-> m.fns, col |-> m.col]

\* assign value v to the variable node (scalar or array element), the value having been
\* evaluated already; subscripts are evaluated now.  Returns [ok, m, v]
Store(m, node, v) ==
  LET ty == TypeOfName(node.l, node.sfx, m.deft) IN
  IF node.k = "var" THEN
    LET cv == Assign(ty, v) IN
    IF IsBad(cv) THEN [ok |-> FALSE, m |-> m, v |-> cv]
    ELSE IF Cardinality(DOMAIN m.vars) > Limit THEN [ok |-> FALSE, m |-> m, v |-> Err(EOutOfMemory)]
    ELSE [ok |-> TRUE, m |-> [m EXCEPT !.vars = Put(@, Key(node.l, node.id, node.sfx, <<>>), cv)], v |-> cv]
  ELSE
    LET rs == EvalList(node.sub, 1, St(m), m.dims, NoLocals, 0) IN
    IF rs.bad # 0 THEN [ok |-> FALSE, m |-> [m EXCEPT !.dims = rs.d], v |-> rs.vs[rs.bad]]
    ELSE LET ek == ElemKey(node.l, node.id, node.sfx, rs.vs, rs.d)
             m1 == [m EXCEPT !.dims = ek.d] IN
         IF IsBad(ek.v) THEN [ok |-> FALSE, m |-> m1, v |-> ek.v]
         ELSE LET cv == Assign(ty, v) IN
              IF IsBad(cv) THEN [ok |-> FALSE, m |-> m1, v |-> cv]
              ELSE IF Cardinality(DOMAIN m.vars) > Limit THEN [ok |-> FALSE, m |-> m1, v |-> Err(EOutOfMemory)]
              ELSE [ok |-> TRUE, m |-> [m1 EXCEPT !.vars = Put(@, ek.key, cv)], v |-> cv]

\* read the current value of a variable node; returns [v, d]
Load(m, node) == Eval(node, St(m), m.dims, NoLocals, 0)

\* ---- compile-time analysis, recomputed when the listing changes
WithListing(m, lst, src) ==
  LET flat == FlatProg(lst)  a == Analyze(flat, DOMAIN lst, src) IN
  [m EXCEPT !.lst = lst, !.src = src, !.pairs = a.pairs, !.perr = a.perr, !.data = a.data]

DataIndexOfLine(m, ln) == CountData(FlatProg(m.lst), 1, ln)

\* an edit cancels the continuation and everything that points into the old program
Edited(m, lst, src) == [WithListing(m, lst, src) EXCEPT
                                              !.cont = NoCont, !.contx = FALSE, !.ctl = <<>>, !.nslots = 0, !.ctlx = FALSE,
                                              !.stale = (m.stale \/ m.ctl # <<>> \/ m.ctlx)]

\* ---- control transfer
\* a jump into the program is refused when the program has compile-time errors
JumpTo(m, from, target) ==
  IF InProgram(target) /\ m.perr # {}
  THEN GoReady([Item(FreshLine(m), [k |-> "err", errs |-> m.perr]) EXCEPT !.cont = NoCont, !.contx = FALSE])
  ELSE [m EXCEPT !.pc = target]

LineStart(ln) == Pos(ln, <<1>>)

RECURSIVE Resolve(_, _)
\* the next statement to execute at or after position p (end of any list -> next line)
Resolve(m, p) ==
  IF p.ln = PastEnd THEN p
  ELSE IF InList(CodeOf(m, p.ln), p.path) THEN p
  ELSE IF p.ln = Direct THEN Pos(PastEnd, <<1>>)
  ELSE Resolve(m, LineStart(NextLine(m.lst, p.ln)))

RECURSIVE NothingLeft(_, _)
\* no executable statement at or after p (remarks and DATA do not execute)
NothingLeft(m, p) ==
  LET q == Resolve(m, p) IN
  IF q.ln = PastEnd THEN TRUE
  ELSE IF StmtAt(CodeOf(m, q.ln), q.path).k \in {"rem", "data"} THEN NothingLeft(m, Adv(q))
  ELSE FALSE

\* CLEAR (also the first half of RUN)
Cleared(m) == [m EXCEPT !.vars = EmptyFn, !.dims = EmptyFn, !.deft = DeftInit, !.fns = EmptyFn,
                        !.ctl = <<>>, !.nslots = 0, !.dptr = 0, !.cont = NoCont, !.contx = FALSE, !.ctlx = FALSE,
                        !.stale = FALSE]

\* ---- FOR / NEXT / RETURN frame handling
RECURSIVE PopToGosub(_)
PopToGosub(ctl) == IF ctl = <<>> THEN [found |-> FALSE, ctl |-> <<>>]
                   ELSE IF ctl[Len(ctl)].k = "gosub"
                        THEN [found |-> TRUE, ctl |-> SubSeq(ctl, 1, Len(ctl) - 1), f |-> ctl[Len(ctl)]]
                        ELSE PopToGosub(SubSeq(ctl, 1, Len(ctl) - 1))
RECURSIVE PopToFor(_, _, _)
\* NEXT [v]: the top frame must be a FOR; with a name, FOR frames of other variables are dropped
PopToFor(ctl, any, key) ==
  IF ctl = <<>> \/ ctl[Len(ctl)].k # "for" THEN [found |-> FALSE, ctl |-> ctl]
  ELSE IF any \/ ctl[Len(ctl)].key = key
       THEN [found |-> TRUE, ctl |-> SubSeq(ctl, 1, Len(ctl) - 1), f |-> ctl[Len(ctl)]]
       ELSE PopToFor(SubSeq(ctl, 1, Len(ctl) - 1), any, key)

Push(m, p, frame, target) ==
  LET c2 == Append(m.ctl, frame) IN
  IF m.nslots + FrameSlots(frame) > Limit THEN Fail(m, p, Err(EOutOfMemory))
  ELSE JumpTo([m EXCEPT !.ctl = c2, !.nslots = @ + FrameSlots(frame)], p, target)

\* ---- INPUT reply handling (code-point level)
RECURSIVE SplitFields(_, _, _, _)
\* split at commas outside quotes
SplitFields(s, i, cur, inq) ==
  IF i > Len(s) THEN <<cur>>
  ELSE IF s[i] = 34 THEN SplitFields(s, i + 1, Append(cur, 34), ~inq)
  ELSE IF s[i] = 44 /\ ~inq THEN <<cur>> \o SplitFields(s, i + 1, <<>>, FALSE)
  ELSE SplitFields(s, i + 1, Append(cur, s[i]), inq)
\* ---- statements ----------------------------------------------------------
TextOf(v) == IF IsStr(v) THEN v.s ELSE NumText(v) \o <<32>>

\* INPUT's REDO FROM START: the error, the same prompt again, waiting at the same statement
Redo(m) ==
  LET s == StmtAt(CodeOf(m, m.inp.ln), m.inp.path) IN
  [Item(Item(m, [k |-> "err", errs |-> {[code |-> ERedo, ln |-> -1]}]),
        [k |-> "input", s |-> s.prompt \o <<63, 32>>, caps |-> s.caps]) EXCEPT !.mode = "input", !.col = 0, !.flds = <<>>]

Exec(m, p, s) ==
  LET next == [m EXCEPT !.pc = Adv(p)] IN
  CASE s.k \in {"rem", "data"} -> next
    [] s.k = "let" ->
         LET r == EvalTop(s.e, St(m)) IN
         IF IsBad(r.v) THEN Fail([m EXCEPT !.dims = r.d], p, r.v)
         ELSE LET w == Store([m EXCEPT !.dims = r.d], s.v, r.v) IN
              IF w.ok THEN [w.m EXCEPT !.pc = Adv(p)] ELSE Fail(w.m, p, w.v)
    [] s.k = "pitem" ->
         LET r == EvalTop(s.e, St(m))  m1 == [m EXCEPT !.dims = r.d] IN
         IF IsBad(r.v) THEN Fail(m1, p, r.v)
         ELSE IF IsNum(r.v) /\ ~FmtOK(r.v) THEN OutOfModel(m1, "format")
         ELSE [Emit(m1, TextOf(r.v)) EXCEPT !.pc = Adv(p)]
    [] s.k = "pzone" -> [Emit(m, Spaces(14 - (m.col % 14))) EXCEPT !.pc = Adv(p)]
    [] s.k = "pnl" -> [Emit(m, <<10>>) EXCEPT !.pc = Adv(p)]
    [] s.k = "goto" -> JumpTo(m, p, LineStart(s.n))
    [] s.k = "gosub" -> Push(m, p, [k |-> "gosub", ret |-> Adv(p), ln |-> p.ln, gen |-> m.dgen], LineStart(s.n))
    [] s.k \in {"return", "next"} /\ m.ctlx -> OutOfModel(m, "frames after error")
    [] s.k = "return" ->
         LET r == PopToGosub(m.ctl) IN
         \* (RETURN searched the whole stack: nothing is left on it, whatever the mode)
         IF ~r.found THEN [Fail([m EXCEPT !.ctl = <<>>, !.nslots = 0], p, Err(EReturnWithoutGosub)) EXCEPT !.ctlx = FALSE]
         \* a frame made by a direct line that has since been replaced: returning into it is
         \* not defined by the manual
         ELSE IF r.f.ln = Direct /\ r.f.gen # m.dgen THEN OutOfModel(m, "frame of an old direct line")
         ELSE [m EXCEPT !.ctl = r.ctl, !.nslots = Slots(r.ctl), !.pc = r.f.ret]
    [] s.k \in {"ongoto", "ongosub"} ->
         LET r == EvalTop(s.e, St(m))  m1 == [m EXCEPT !.dims = r.d]  sel == ToInt(r.v) IN
         IF IsBad(sel) THEN Fail(m1, p, sel)
         ELSE IF sel.n < 0 THEN Fail(m1, p, Err(EIllegalFn))
         ELSE IF sel.n = 0 \/ sel.n > Len(s.ns) THEN [m1 EXCEPT !.pc = Adv(p)]
         ELSE IF s.k = "ongoto" THEN JumpTo(m1, p, LineStart(s.ns[sel.n]))
         ELSE Push(m1, p, [k |-> "gosub", ret |-> Adv(p), ln |-> p.ln, gen |-> m.dgen], LineStart(s.ns[sel.n]))
    [] s.k = "if" ->
         LET r == EvalTop(s.c, St(m))  m1 == [m EXCEPT !.dims = r.d] IN
         IF IsBad(r.v) THEN Fail(m1, p, r.v)
         ELSE IF IsStr(r.v) THEN Fail(m1, p, Err(ETypeMismatch))
         ELSE IF ~r.v.x THEN OutOfModel(m1, "if")
         ELSE IF r.v.n # 0 THEN [m1 EXCEPT !.pc = Into(p, 1)]
         ELSE IF s.el # <<>> THEN [m1 EXCEPT !.pc = Into(p, 2)]
         ELSE [m1 EXCEPT !.pc = LineStart(IF p.ln = Direct THEN PastEnd ELSE NextLine(m.lst, p.ln))]
    [] s.k = "for1" ->
         \* x, then y, then z, each evaluated once; the first pass always runs
         LET ra == EvalTop(s.a, St(m)) IN
         IF IsBad(ra.v) THEN Fail([m EXCEPT !.dims = ra.d], p, ra.v)
         ELSE LET w == Store([m EXCEPT !.dims = ra.d], s.v, ra.v) IN
              IF ~w.ok THEN Fail(w.m, p, w.v) ELSE [w.m EXCEPT !.pc = Adv(p)]
    [] s.k = "for2" ->
         LET rb == EvalTop(s.b, St(m)) IN
         IF IsBad(rb.v) THEN Fail([m EXCEPT !.dims = rb.d], p, rb.v)
         ELSE LET m2 == [m EXCEPT !.dims = rb.d]
                  rc == EvalTop(s.c, St(m2)) IN
              IF IsBad(rc.v) THEN Fail([m2 EXCEPT !.dims = rc.d], p, rc.v)
              ELSE Push([m2 EXCEPT !.dims = rc.d], p,
                        [k |-> "for", key |-> Key(s.v.l, s.v.id, s.v.sfx, <<>>), node |-> s.v,
                         lim |-> rb.v, step |-> rc.v, body |-> Adv(p), ln |-> p.ln, gen |-> m.dgen],
                        Adv(p))
    [] s.k = "next" ->
         LET r == PopToFor(m.ctl, s.any, IF s.any THEN <<>> ELSE Key(s.v.l, s.v.id, s.v.sfx, <<>>)) IN
         IF ~r.found THEN Fail([m EXCEPT !.ctl = r.ctl, !.nslots = Slots(r.ctl)], p, Err(ENextWithoutFor))
         ELSE IF r.f.ln = Direct /\ r.f.gen # m.dgen THEN OutOfModel(m, "frame of an old direct line")
         ELSE LET f == r.f
                  m1 == [m EXCEPT !.ctl = r.ctl, !.nslots = Slots(r.ctl)]
                  cur == BinOp("add", Fetch(m.vars, m.deft, f.key), f.step) IN
              IF IsBad(cur) THEN Fail(m1, p, cur)
              ELSE LET w == Store(m1, f.node, cur) IN
                   IF ~w.ok THEN Fail(w.m, p, w.v)
                   ELSE IF ~f.step.x \/ ~cur.x \/ ~f.lim.x \/ IsStr(f.lim) THEN OutOfModel(w.m, "next")
                   ELSE LET done == IF f.step.n < 0 THEN CmpNum(cur, f.lim) < 0 ELSE CmpNum(f.lim, cur) < 0 IN
                        IF done THEN [w.m EXCEPT !.pc = Adv(p)]
                        ELSE [w.m EXCEPT !.ctl = Append(r.ctl, f), !.nslots = @ + 4, !.pc = f.body]
    [] s.k = "while" ->
         LET r == EvalTop(s.c, St(m))  m1 == [m EXCEPT !.dims = r.d]
             prs == IF p.ln = Direct THEN m.dpairs ELSE m.pairs IN
         IF IsBad(r.v) THEN Fail(m1, p, r.v)
         ELSE IF IsStr(r.v) THEN Fail(m1, p, Err(ETypeMismatch))
         ELSE IF ~r.v.x THEN OutOfModel(m1, "while")
         ELSE IF r.v.n # 0 THEN [m1 EXCEPT !.pc = Adv(p)]
         ELSE [m1 EXCEPT !.pc = Adv(Mate(prs, p))]
    [] s.k = "wend" -> [m EXCEPT !.pc = Mate(IF p.ln = Direct THEN m.dpairs ELSE m.pairs, p)]
    [] s.k = "end" ->
         \* continuable, unless nothing follows (a finished program cannot be continued)
         \* (an END inside a THEN / ELSE part, or followed only by remarks and DATA: whether the
         \* program counts as finished is not fixed by the manual)
         IF InProgram(p)
         THEN GoReady([m EXCEPT !.cont = IF NothingLeft(m, Adv(p)) THEN NoCont ELSE Adv(p),
                                !.contx = (NothingLeft(m, Adv(p)) /\ (Len(p.path) > 1 \/ Resolve(m, Adv(p)).ln # PastEnd))])
         ELSE GoReady(m)
    [] s.k = "stop" ->
         LET m1 == Item(FreshLine(m), [k |-> "err", errs |-> {[code |-> EBreak, ln |-> IF InProgram(p) THEN p.ln ELSE -1]}]) IN
         IF InProgram(p) THEN GoReady([m1 EXCEPT !.cont = Adv(p), !.contx = NothingLeft(m, Adv(p))])
         ELSE GoReady([m1 EXCEPT !.cont = NoCont, !.contx = FALSE, !.ctl = <<>>, !.nslots = 0, !.stale = FALSE])
    [] s.k = "read" ->
         IF m.dptr >= Len(m.data) THEN Fail(m, p, Err(EOutOfData))
         ELSE LET w == Store([m EXCEPT !.dptr = @ + 1], s.v, m.data[m.dptr + 1]) IN
              IF w.ok THEN [w.m EXCEPT !.pc = Adv(p)] ELSE Fail(w.m, p, w.v)
    [] s.k = "restore" ->
         [m EXCEPT !.dptr = IF s.n < 0 THEN 0 ELSE DataIndexOfLine(m, s.n), !.pc = Adv(p)]
    [] s.k = "dim" ->
         LET rs == EvalList(s.v.sub, 1, St(m), m.dims, NoLocals, 0)
             aid == ArrId(s.v.id, s.v.sfx) IN
         IF rs.bad # 0 THEN Fail([m EXCEPT !.dims = rs.d], p, rs.vs[rs.bad])
         ELSE IF aid \in DOMAIN rs.d THEN Fail([m EXCEPT !.dims = rs.d], p, Err(ERedim))
         ELSE LET bs == [i \in 1..Len(rs.vs) |-> SubVal(rs.vs[i])]
                  bad == {i \in 1..Len(bs) : IsBad(bs[i])} IN
              IF bad # {} THEN Fail([m EXCEPT !.dims = rs.d], p, bs[CHOOSE i \in bad : \A j \in bad : i <= j])
              ELSE [m EXCEPT !.dims = [a \in DOMAIN rs.d \cup {aid} |->
                                         IF a = aid THEN [i \in 1..Len(bs) |-> bs[i].n] ELSE rs.d[a]],
                             !.pc = Adv(p)]
    [] s.k = "erase" ->
         LET aid == ArrId(s.v.id, s.v.sfx) IN
         IF aid \notin DOMAIN m.dims THEN Fail(m, p, Err(EIllegalFn))
         ELSE [m EXCEPT !.dims = [a \in DOMAIN m.dims \ {aid} |-> m.dims[a]],
                        !.vars = [k \in {k \in DOMAIN m.vars : ~(k[2] = s.v.id /\ k[3] = s.v.sfx /\ k[4] # <<>>)} |-> m.vars[k]],
                        !.pc = Adv(p)]
    [] s.k = "def" ->
         IF ~InProgram(p) THEN Fail(m, p, Err(EIllegalDirect))
         ELSE [m EXCEPT !.fns = [f \in DOMAIN m.fns \cup {s.id} |->
                                   IF f = s.id THEN [ps |-> s.ps, body |-> s.e] ELSE m.fns[f]],
                        !.pc = Adv(p)]
    [] s.k = "deftype" ->
         \* letters a..b take type t; undecorated variables holding another type are dropped
         [m EXCEPT !.deft = [c \in Letters |-> IF LetterIdx[c] >= LetterIdx[s.a] /\ LetterIdx[c] <= LetterIdx[s.b]
                                               THEN s.t ELSE m.deft[c]],
                   !.vars = [k \in {k \in DOMAIN m.vars : k[3] # "" \/ m.vars[k].t = s.t} |-> m.vars[k]],
                   !.pc = Adv(p)]
    [] s.k = "swap" ->
         LET r1 == Load(m, s.v1) IN
         IF IsBad(r1.v) THEN Fail([m EXCEPT !.dims = r1.d], p, r1.v)
         ELSE LET m1 == [m EXCEPT !.dims = r1.d]  r2 == Load(m1, s.v2) IN
              IF IsBad(r2.v) THEN Fail([m1 EXCEPT !.dims = r2.d], p, r2.v)
              ELSE LET m2 == [m1 EXCEPT !.dims = r2.d] IN
                   IF r1.v.t # r2.v.t THEN Fail(m2, p, Err(ETypeMismatch))
                   ELSE LET w1 == Store(m2, s.v1, r2.v) IN
                        IF ~w1.ok THEN Fail(w1.m, p, w1.v)
                        ELSE LET w2 == Store(w1.m, s.v2, r1.v) IN
                             IF ~w2.ok THEN Fail(w2.m, p, w2.v) ELSE [w2.m EXCEPT !.pc = Adv(p)]
    [] s.k = "mid" ->
         \* MID$(v, p [, n]) = e : overwrite at most n characters of v from position p; v keeps its length
         LET r0 == Load(m, s.v)  m0 == [m EXCEPT !.dims = r0.d] IN
         IF IsBad(r0.v) THEN Fail(m0, p, r0.v)
         ELSE LET re == EvalTop(s.e, St(m0))  m1 == [m0 EXCEPT !.dims = re.d] IN
         IF IsBad(re.v) THEN Fail(m1, p, re.v)
         ELSE LET rn == EvalTop(s.n, St(m1))  m2 == [m1 EXCEPT !.dims = rn.d] IN
         IF IsBad(rn.v) THEN Fail(m2, p, rn.v)
         ELSE LET rp == EvalTop(s.p, St(m2))  m3 == [m2 EXCEPT !.dims = rp.d]
                  pos == ArgInt(rp.v)  cnt == ArgInt(rn.v) IN
         IF IsBad(rp.v) THEN Fail(m3, p, rp.v)
         ELSE IF IsBad(pos) THEN Fail(m3, p, pos)
         ELSE IF IsBad(cnt) THEN Fail(m3, p, cnt)
         ELSE IF pos.n < 0 \/ cnt.n < 0 THEN Fail(m3, p, Err(AnyErr))
         ELSE IF ~IsStr(re.v) THEN Fail(m3, p, Err(ETypeMismatch))
         ELSE IF pos.n = 0 THEN Fail(m3, p, Err(AnyErr))
         ELSE IF ~IsStr(r0.v) THEN Fail(m3, p, Err(ETypeMismatch))
         ELSE LET old == r0.v.s
                  k == Min(Min(cnt.n, Len(re.v.s)), IF pos.n > Len(old) THEN 0 ELSE Len(old) - pos.n + 1)
                  new == [i \in 1..Len(old) |-> IF i >= pos.n /\ i < pos.n + k THEN re.v.s[i - pos.n + 1] ELSE old[i]]
                  w == Store(m3, s.v, MkStr(new)) IN
              IF w.ok THEN [w.m EXCEPT !.pc = Adv(p)] ELSE Fail(w.m, p, w.v)
    [] s.k = "input" ->
         \* prompt, then wait; column returns to 0
         [Item(m, [k |-> "input", s |-> s.prompt \o <<63, 32>>, caps |-> s.caps])
            EXCEPT !.mode = "input", !.inp = p, !.col = 0]
    [] s.k = "infield" ->
         \* one field of the reply: blanks trimmed, quotes removed for a string variable, a numeric
         \* field converted like a literal; the first unacceptable field -> REDO FROM START.
         \* The target's subscripts are evaluated before the field is converted (an array may
         \* get its default dimensions even though the field is then refused).
         IF s.i > Len(m.flds) THEN OutOfModel(m, "field without a reply")
         ELSE LET f == Trim(m.flds[s.i])
                  val == IF s.v.sfx = "$" THEN MkStr(Unquote(f)) ELSE ParseField(f)
                  done == s.i = s.n IN
              IF IsUnk(val) THEN OutOfModel(m, "reply")
              ELSE IF IsErr(val) THEN
                   (IF s.v.k = "arr"
                    THEN LET w == Store(m, s.v, Default(TypeOfName(s.v.l, s.v.sfx, m.deft))) IN
                         \* (a subscript the value model cannot compute -- an inexact number: outside the model)
                         IF ~w.ok /\ IsUnk(w.v) THEN OutOfModel(m, "reply") ELSE Redo([m EXCEPT !.dims = w.m.dims])
                    ELSE Redo(m))
              ELSE LET r == Store(m, s.v, val) IN
                   IF ~r.ok THEN (IF IsUnk(r.v) THEN OutOfModel(r.m, "reply") ELSE Redo(r.m))
                   ELSE [r.m EXCEPT !.pc = Adv(p), !.inp = IF done THEN NoCont ELSE @, !.flds = IF done THEN <<>> ELSE @]
    [] s.k = "clear" -> [Cleared(m) EXCEPT !.pc = Adv(p)]
    [] s.k = "run" ->
         LET m1 == Cleared(m) IN
         JumpTo(m1, p, LineStart(IF s.n >= 0 THEN s.n ELSE FirstLine(m.lst)))
    [] s.k = "cont" ->
         IF m.contx THEN OutOfModel(m, "cont after error")
         ELSE IF m.cont = NoCont \/ InProgram(p) THEN Fail(m, p, Err(ECantContinue))
         ELSE [m EXCEPT !.pc = m.cont, !.cont = NoCont, !.lcur = m.contl, !.contl = -1]
    [] s.k = "tron" -> [m EXCEPT !.tron = TRUE, !.ltr = p.ln, !.pc = Adv(p)]
    [] s.k = "troff" -> [m EXCEPT !.tron = FALSE, !.pc = Adv(p)]
    [] s.k = "new" -> GoReady([Edited(Cleared(m), EmptyFn, EmptyFn) EXCEPT !.tron = FALSE])
    [] s.k = "delete" ->
         \* DELETE a-b removes exactly the lines in the range; a bare DELETE is an error
         IF s.a = 0 /\ s.b = 65529 /\ s.bare THEN Fail(m, p, Err(EIllegalFn))
         ELSE IF s.a > MaxLine \/ s.b > MaxLine \/ s.a > s.b THEN Fail(m, p, Err(AnyErr))
         ELSE LET keep == {n \in DOMAIN m.lst : n < s.a \/ n > s.b} IN
              \* (nothing in range: the statement still ends the run; whether a program that executed
              \* it can be continued is not fixed by the manual)
              IF keep = DOMAIN m.lst THEN GoReady(IF InProgram(p) THEN [m EXCEPT !.contx = TRUE, !.cont = NoCont] ELSE m)
              ELSE GoReady(Edited(m, [n \in keep |-> m.lst[n]], [n \in keep |-> m.src[n]]))
    [] s.k = "list" /\ (s.a > MaxLine \/ s.b > MaxLine \/ s.a > s.b) -> Fail(m, p, Err(AnyErr))
    [] s.k = "list" ->
         \* one line per step (LIST can be interrupted and continued); lcur: the next number
         LET from == IF m.lcur < 0 THEN s.a ELSE m.lcur
             c == {n \in DOMAIN m.lst : n >= from /\ n <= s.b} IN
         IF c = {} THEN [m EXCEPT !.lcur = -1, !.pc = Adv(p)]
         ELSE LET n == CHOOSE n \in c : \A y \in c : n <= y IN
              [Item(m, [k |-> "list", ln |-> n, text |-> ShowLine(n, m.src[n]),
                        cols |-> {<<e.c0, e.c1>> : e \in {x \in m.perr : x.ln = n}}]) EXCEPT !.lcur = n + 1]
    [] s.k = "renum" ->
         IF InProgram(p) THEN Fail(m, p, Err(EIllegalDirect))
         \* a program with compile-time errors is not renumbered: they are reported instead
         ELSE IF m.perr # {} THEN GoReady(Item(FreshLine(m), [k |-> "err", errs |-> m.perr]))
         \* RENUM either fails and changes nothing, or renumbers.  It must fail when the
         \* numbering is inadmissible; when a recorded trace says it failed (obsfail) that is
         \* accepted too -- the manual does not enumerate the reasons -- and nothing may change.
         ELSE LET r == RenumMap(DOMAIN m.src, s.new, s.old, s.step) IN
              IF ~r.ok \/ ("obsfail" \in DOMAIN s /\ s.obsfail) THEN Fail(m, p, Err(AnyErr))
              \* a RENUM that changes no line number edits nothing: whether a continuation and pending
              \* frames survive it is not fixed (they cannot lead into a different program)
              ELSE IF \A n \in DOMAIN m.src : r.f[n] = n
                   THEN GoReady([m EXCEPT !.contx = (@ \/ m.cont # NoCont), !.cont = NoCont,
                                          !.stale = (@ \/ m.ctl # <<>> \/ m.ctlx), !.ctl = <<>>, !.nslots = 0, !.ctlx = FALSE])
              ELSE LET src2 == RenumSrc(m.src, r.f) IN
                   GoReady(Edited(m, [n \in DOMAIN src2 |-> Norm(src2[n])], src2))
    [] s.k = "cls" -> [Item(m, [k |-> "cls"]) EXCEPT !.pc = Adv(p)]
    [] OTHER -> OutOfModel(m, "statement")

\* a line is traced when it has something to execute (remarks and DATA do not execute)
Traceable(code) == \E i \in 1..Len(code) : code[i].k \notin {"rem", "data"}

\* one step of a running machine: the statement at pc (TRON prints the line when it changes)
Step(m) ==
  LET p == Resolve(m, m.pc) IN
  IF p.ln = PastEnd
  THEN \* ran off the end of the program / finished the direct line: an implicit END
       \* (a program that runs off its end cannot be continued)
       \* (a program interrupted just before its end and continued also ends here: pc.ln = PastEnd)
       IF m.pc.ln = Direct THEN GoReady(m)
       \* (with TRON on, a last line that has nothing to execute: "the executing line number is
       \* printed" and "the lines actually entered" disagree about it, and the manual does not
       \* settle it -- the trace of that line is optional: an item the observed output may or may
       \* not contain)
       \* (like every trace output it is a step of its own: an interrupt may fall after it)
       ELSE LET last == CHOOSE x \in DOMAIN m.lst : \A y \in DOMAIN m.lst : y <= x
                opt == m.tron /\ m.lst # EmptyFn /\ ~Traceable(m.lst[last]) /\ m.ltr # last IN
            IF opt THEN [Item(m, [k |-> "opt", s |-> <<91>> \o DigitsOf(last) \o <<93>>
                                                      \o (IF m.col = 0 THEN <<10>> ELSE <<>>)]) EXCEPT !.ltr = last]
            ELSE GoReady([m EXCEPT !.cont = NoCont, !.contx = FALSE])
  \* entering a line with TRON on prints its number: a step of its own (an interrupt may
  \* fall between the trace output and the line's first statement)
  ELSE IF m.tron /\ InProgram(p) /\ p.ln # m.ltr /\ Traceable(m.lst[p.ln])
       THEN [Emit(m, <<91>> \o DigitsOf(p.ln) \o <<93>>) EXCEPT !.ltr = p.ln, !.pc = p]
  ELSE LET m1 == IF ~InProgram(p) THEN [m EXCEPT !.ltr = -1] ELSE m
       IN  Exec([m1 EXCEPT !.pc = p], p, StmtAt(CodeOf(m1, p.ln), p.path))

\* big step: run until the machine waits for the user (or the fuel is used up: the run is
\* then outside the bounded model)
RECURSIVE RunToWait(_, _)
RunToWait(m, fuel) ==
  IF m.mode # "run" THEN m
  ELSE IF fuel = 0 THEN OutOfModel(m, "fuel")
  ELSE RunToWait(Step(m), fuel - 1)

\* at most n steps (still running afterwards if the machine did not come to wait)
RECURSIVE RunSteps(_, _)
RunSteps(m, n) == IF m.mode # "run" \/ n = 0 THEN m ELSE RunSteps(Step(m), n - 1)

\* ---- user actions ----------------------------------------------------------
\* a numbered line: insert / replace; an empty one deletes (no change if absent)
EnterLine(m, n, stmts) ==
  LET m0 == [m EXCEPT !.resp = <<>>] IN
  \* a number above the limit is not a line number: the text is a (malformed) direct line
  IF n > MaxLine THEN GoReady(Item(FreshLine(m0), [k |-> "err", errs |-> {[code |-> AnyErr, ln |-> -1]}]))
  ELSE IF stmts = <<>> THEN
    (IF n \in DOMAIN m.lst THEN Edited(m0, [x \in DOMAIN m.lst \ {n} |-> m.lst[x]], [x \in DOMAIN m.lst \ {n} |-> m.src[x]])
     ELSE [m0 EXCEPT !.cont = NoCont, !.contx = FALSE, !.ctl = <<>>, !.nslots = 0, !.ctlx = FALSE,
                     !.stale = (m.stale \/ m.ctl # <<>> \/ m.ctlx)])
  ELSE Edited(m0, [x \in DOMAIN m.lst \cup {n} |-> IF x = n THEN Norm(stmts) ELSE m.lst[x]],
                  [x \in DOMAIN m.lst \cup {n} |-> IF x = n THEN stmts ELSE m.src[x]])

\* a direct line: analysed against the program's line numbers; with compile-time errors
\* nothing of it executes
EnterDirect(m, stmts) ==
  LET code == Norm(stmts)
      flat == FlatDirect(code)
      a == Analyze(flat, DOMAIN m.lst, [x \in {Direct} |-> stmts])
      derr == IF a.perr = {} /\ a.hasdata THEN {[code |-> EIllegalDirect, ln |-> -1]}
              ELSE {[code |-> e.code, ln |-> -1, c0 |-> e.c0, c1 |-> e.c1] : e \in a.perr}
      m0 == [m EXCEPT !.resp = <<>>, !.dir = code, !.dirsrc = stmts, !.dpairs = a.pairs, !.ltr = -1, !.dgen = @ + 1, !.lcur = -1] IN
  IF derr # {} THEN GoReady(Item(FreshLine(m0), [k |-> "err", errs |-> derr]))
  ELSE [m0 EXCEPT !.mode = "run", !.pc = LineStart(Direct)]

\* the reply to a pending INPUT: over-long or the wrong number of fields -> REDO FROM START;
\* else the fields are assigned one by one (steps "infield")
Reply(m, text) ==
  LET m0 == [m EXCEPT !.resp = <<>>, !.col = 0]
      s == StmtAt(CodeOf(m, m.inp.ln), m.inp.path)
      fields == IF Len(s.vs) <= 1 THEN <<text>> ELSE SplitFields(text, 1, <<>>, FALSE) IN
  IF Len(text) > 1024 \/ Len(fields) # Len(s.vs) THEN Redo(m0)
  ELSE [m0 EXCEPT !.mode = "run", !.pc = Adv(m.inp), !.flds = fields]

\* interrupt (CTRL-C) of a running program: BREAK, continuable; of a direct line: everything
\* pending is abandoned
Interrupt(m) ==
  LET p == Resolve(m, m.pc)
      inprog == InProgram(p) \/ (p.ln = PastEnd /\ InProgram(m.pc))
      m1 == Item(FreshLine(m), [k |-> "err", errs |-> {[code |-> EBreak, ln |-> LineUnspec]}]) IN
  IF m.mode = "input" THEN
     (IF InProgram(m.inp) THEN GoReady([m1 EXCEPT !.cont = m.inp, !.contx = FALSE, !.inp = NoCont])
      ELSE GoReady([m1 EXCEPT !.cont = NoCont, !.contx = FALSE, !.ctl = <<>>, !.nslots = 0, !.inp = NoCont, !.stale = FALSE]))
  ELSE IF inprog THEN GoReady([m1 EXCEPT !.cont = p, !.contx = FALSE, !.contl = m.lcur, !.lcur = -1])
  ELSE GoReady([m1 EXCEPT !.cont = NoCont, !.contx = FALSE, !.ctl = <<>>, !.nslots = 0, !.stale = FALSE])

\* deliver one user action
Apply(mm, c) ==
  CASE c.k = "line"   -> EnterLine(mm, c.n, c.stmts)
    [] c.k = "direct" -> EnterDirect(mm, c.stmts)
    [] c.k = "reply"  -> Reply(mm, c.s)
    [] c.k = "int"    -> Interrupt([mm EXCEPT !.resp = <<>>])
\* ... and run until the machine waits again
Do(mm, c, fuel) == RunToWait(Apply(mm, c), fuel)

\* what RUN / CLEAR / NEW must reset (C12)
ProgState(mm) == <<mm.vars, mm.dims, mm.deft, mm.fns, [i \in DOMAIN mm.ctl |-> [mm.ctl[i] EXCEPT !.gen = 0]],
                   mm.dptr, mm.cont>>
=============================================================================
