------------------------------ MODULE MC_C20 ------------------------------
(***************************************************************************)
(* C20: branches resolve by line number, independent of program layout.     *)
(* For every program L of the bounded grammar and every layout              *)
(* transformation T (a remark line inserted before / between / after the    *)
(* lines, an unreachable line appended after an END, a multi-statement line *)
(* split in two where no IF scope is crossed, the statement list typed as a *)
(* direct line with 0 or 3 unrelated program lines in memory) TLC runs L    *)
(* and T(L) on the abstract machine and checks that the responses are equal *)
(* up to the reported line numbers.  Both sessions are then executed by the *)
(* real interpreter and validated against the specification.                *)
(***************************************************************************)
EXTENDS AstB, Json

CONSTANTS NLines, Fuel, Tset

A == Var("A", "A", "")
B == Var("B", "B", "")
I == Var("I", "I", "")
L1 == 0   L2 == 20   L3 == 30
LineNos == <<0, 20, 30, 40>>
PA == SPrint(<<PE(A), PSep(";")>>)
PS(s) == SPrint(<<PE(LStr(s)), PSep(";")>>)

Templates ==
  { <<SLet(A, Bin("add", A, LI(1))), PA>>,
    <<PS(<<88>>), SLet(B, LI(2)), PS(<<89>>)>>,
    <<SGoto(L3)>>, <<SGosub(L3), PS(<<71>>)>>, <<SReturn>>,
    <<SOnGoto(A, <<L2, L3>>), PS(<<78>>)>>,
    \* an ON..GOTO that may fall through as the last statement of its line (of the program)
    <<PS(<<74>>), SOnGoto(B, <<L1>>)>>,
    <<SOnGosub(A, <<L3>>), PS(<<79>>)>>,
    <<SIf(Bin("lt", A, LI(2)), <<PS(<<84>>)>>, <<PS(<<70>>)>>)>>,
    <<SIfShort(Bin("lt", A, LI(2)), <<SGoto(L1)>>, <<>>)>>,
    <<SFor(I, LI(1), LI(2)), PA>>, <<PS(<<110>>), SNext(<<>>)>>,
    <<SWhile(Bin("lt", A, LI(2))), PS(<<119>>)>>, <<SLet(A, Bin("add", A, LI(1))), SWend>>,
    <<SRead(<<A>>), PA, SRestore(20)>>, <<SData(<<MkI(4), MkI(5)>>), PS(<<100>>)>>,
    <<PS(<<69>>), SEnd>>, <<PA, SPrint(<<PE(Bin("idiv", LI(1), A))>>)>>,
    <<SIf(Bin("gt", A, LI(2)), <<PS(<<66>>), SEnd>>, <<>>)>>, <<SRem>> }
  \cup (IF Tset > 1 THEN { <<SStop, PS(<<83>>)>>, <<SRestore(-1), SRead(<<B>>), SPrint(<<PE(B)>>)>>,
                           <<SDef("FNA", <<Var("X", "X", "")>>, Bin("add", Var("X", "X", ""), A)), PS(<<68>>)>>,
                           <<SPrint(<<PE(FnCall("FNA", <<LI(1)>>)), PSep(";")>>)>> } ELSE {})
DirectOK(l) == \A i \in 1..Len(l) : l[i].k \notin {"goto", "gosub", "return", "ongoto", "ongosub", "data", "restore", "def", "end", "stop", "read"}
               /\ (l[i].k = "if" => \A j \in 1..Len(l[i].th) : l[i].th[j].k # "goto")
HasIf(l) == \E i \in 1..Len(l) : l[i].k = "if"

VARIABLES prog, tr, done
vars == <<prog, tr, done>>

Listing(p) == [i \in 1..NLines |-> CLine(LineNos[i], p[i])]
RunCmd == CDirect(<<SRun(-1)>>)

\* transformations: a record [k, ...]; Cmds(p, t) = the session of the transformed program,
\* Map(t, n) = the line number of L that a line number reported by T(L) stands for
Transforms(p) ==
  { [k |-> "id"] }
  \cup { [k |-> "rem", at |-> n] : n \in {10, 25, 35, 45} }
  \cup { [k |-> "fornext", at |-> n] : n \in {10, 25} }
  \cup { [k |-> "tail"] }
  \cup { [k |-> "split", i |-> i, at |-> j] : i \in {x \in 1..NLines : ~HasIf(p[x])}, j \in 1..2 }
  \cup { [k |-> "direct", i |-> i, bg |-> bg] : i \in {x \in 1..NLines : DirectOK(p[x])}, bg \in {0, 1} }
Background == << CLine(100, <<PS(<<90>>), SGoto(120)>>), CLine(110, <<SData(<<MkI(9)>>)>>), CLine(120, <<SEnd>>) >>
Cmds(p, t) ==
  CASE t.k = "id" -> Listing(p) \o <<RunCmd>>
    [] t.k = "rem" -> Listing(p) \o <<CLine(t.at, <<SRem>>), RunCmd>>
    \* a line with its own local labels (a complete loop over a variable of its own) between the lines
    [] t.k = "fornext" -> Listing(p) \o <<CLine(t.at, <<SFor(Var("Z","Z",""), LI(1), LI(1)), SNext(<<>>)>>), RunCmd>>
    [] t.k = "tail" -> Listing(p) \o <<CLine(45, <<SEnd>>), CLine(50, <<PS(<<85>>), SGoto(L1)>>), RunCmd>>
    [] t.k = "split" ->
         (IF t.at >= Len(p[t.i]) THEN Listing(p)
          ELSE [x \in 1..NLines |-> IF x = t.i THEN CLine(LineNos[x], SubSeq(p[x], 1, t.at)) ELSE CLine(LineNos[x], p[x])]
               \o <<CLine(LineNos[t.i] + 5, SubSeq(p[t.i], t.at + 1, Len(p[t.i])))>>) \o <<RunCmd>>
    [] t.k = "direct" -> (IF t.bg = 1 THEN Background ELSE <<>>) \o <<CDirect(p[t.i])>>
\* the reference for each transformation
RefCmds(p, t) ==
  CASE t.k = "tail" -> Listing(p) \o <<CLine(45, <<SEnd>>), RunCmd>>
    [] t.k = "direct" -> <<CLine(10, p[t.i]), RunCmd>>
    [] t.k = "fornext" -> Listing(p) \o <<RunCmd>>
    [] OTHER -> Listing(p) \o <<RunCmd>>
Map(t, n) == IF t.k = "split" /\ n = LineNos[t.i] + 5 THEN LineNos[t.i]
             ELSE IF t.k = "direct" /\ n = 10 THEN -1 ELSE n

RECURSIVE Feed(_, _, _)
Feed(mm, cs, i) == IF i > Len(cs) THEN mm ELSE Feed(Do(mm, cs[i], Fuel), cs, i + 1)

\* responses up to reported line numbers (the reference's lines are mapped too: for "direct"
\* the one-line program reports line 10 where the direct line reports none)
MapResp(t, resp) == [i \in 1..Len(resp) |->
   IF resp[i].k = "err" THEN [k |-> "err", errs |-> {[code |-> e.code, ln |-> Map(t, e.ln)] : e \in resp[i].errs}]
   ELSE resp[i]]

Init == prog \in [1..NLines -> Templates] /\ tr = [k |-> "none"] /\ done = FALSE
Next == /\ ~done /\ tr.k = "none"
        /\ \E t \in Transforms(prog) : tr' = t
        /\ done' = TRUE /\ UNCHANGED prog

Final(cs) == Feed(InitM, cs, 1)
\* runs that exhaust a memory pool depend on the pool size (12 here, 65535 in the interpreter)
SawOom(resp) == \E i \in 1..Len(resp) : resp[i].k = "err" /\ \E e \in resp[i].errs : e.code = EOutOfMemory
\* the property, evaluated once per (program, transformation)
LayoutInvariant ==
  tr.k # "none" =>
    LET a == Final(Cmds(prog, tr))  b == Final(RefCmds(prog, tr)) IN
    \* (runs that exhaust a memory pool are compared only as far as neither does: a layout change
    \* may legitimately move the point where the pool overflows)
    (a.mode # "oom" /\ b.mode # "oom" /\ ~SawOom(a.resp) /\ ~SawOom(b.resp)) =>
       /\ MapResp(tr, a.resp) = MapResp(tr, b.resp)
       /\ LET NoZ(v) == [k \in {x \in DOMAIN v : x[2] # "Z"} |-> v[k]] IN NoZ(a.vars) = NoZ(b.vars)
EmitSess == tr.k # "none" =>
          LET a == Final(Cmds(prog, tr)) IN
          PrintT(ToJson([R |-> "sess", cmds |-> Cmds(prog, tr), oom |-> (a.mode = "oom" \/ SawOom(a.resp)), t |-> tr.k]))
=============================================================================
