----------------------------- MODULE PoolLimit -----------------------------
(***************************************************************************)
(* C18, the variable pool at its limit.  BasicMachine's store refuses an    *)
(* assignment when the pool already holds more than Limit variables         *)
(* (StoreVar: Cardinality(DOMAIN m.vars) > Limit => OUT OF MEMORY, store    *)
(* unchanged).  With the real limit (65535) that function is too large for  *)
(* TLC to carry through 65 000 assignments, so this module abstracts the    *)
(* store to what the limit depends on: the number of live anonymous         *)
(* variables (array elements filled by a loop) and the values of a few      *)
(* named scalars.  Same rule, same order (the test comes before the store,  *)
(* also when the assignment would release a slot).  Checked exhaustively    *)
(* for a small Limit (PoolLimit.cfg) and bound to the code with the real    *)
(* one by PoolTrace.                                                        *)
(***************************************************************************)
EXTENDS Naturals, FiniteSets
CONSTANTS Limit, Names, Vals, MaxBulk
VARIABLES n, vals, last
pvars == <<n, vals, last>>

Live == {x \in Names : vals[x] # 0}
Card == n + Cardinality(Live)
Full == Card > Limit

Init == n = 0 /\ vals = [x \in Names |-> 0] /\ last = "ok"

\* LET x = v: a value of 0 releases the slot (zero-initialised variables take no room)
Set(x, v) == IF Full THEN last' = "oom" /\ UNCHANGED <<n, vals>>
             ELSE last' = "ok" /\ vals' = [vals EXCEPT ![x] = v] /\ UNCHANGED n
\* k assignments of a non-zero value to k fresh variables, one after the other; the first refusal ends the statement
Bulk(k) == IF Card + k - 1 <= Limit THEN n' = n + k /\ last' = "ok" /\ UNCHANGED vals
           ELSE n' = n + (IF Full THEN 0 ELSE Limit + 1 - Card) /\ last' = "oom" /\ UNCHANGED vals
Clear == n' = 0 /\ vals' = [x \in Names |-> 0] /\ last' = "ok"

Next == \/ \E x \in Names, v \in Vals : Set(x, v)
        \/ \E k \in 1..MaxBulk : Bulk(k)
        \/ Clear
Spec == Init /\ [][Next]_pvars

TypeOK == n \in Nat /\ vals \in [Names -> Vals] /\ last \in {"ok", "oom"}
\* the pool never holds more than Limit + 1 variables
PoolBounded == Card <= Limit + 1
\* a refused assignment leaves nothing behind; an accepted one changes the pool by at most the statement's stores
RefusedChangesNothing == [][(last' = "oom" /\ vals' # vals) => FALSE]_pvars
OnlyClearShrinksFull == [][(Full /\ Card' < Card) => (n' = 0 /\ Live' = {})]_pvars
=============================================================================
