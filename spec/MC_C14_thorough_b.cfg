CONSTANT Limit = 100
CONSTANT Fuel = 80
CONSTANT Uni <- UniB
CONSTANT Args <- ArgsThorough
INIT Init
NEXT Next
INVARIANT RenumExact
INVARIANT RenumSound
INVARIANT EmitSess
CHECK_DEADLOCK FALSE
