CONSTANTS
  Limit = 65535
  NLines = 3
  MaxSteps = 60
  MaxV = 700
  Tset = 1
  WithIntr = FALSE
  IntrWin = 300
INIT VInit
NEXT VNextA
INVARIANTS Refines NoRunWithErrors VTypeOK VVarsTyped Linked FramesAtLineStart SliceInvariant
CHECK_DEADLOCK FALSE
