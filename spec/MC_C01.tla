------------------------------ MODULE MC_C01 ------------------------------
(***************************************************************************)
(* C01: every program of a bounded grammar (one statement template per     *)
(* line, N lines) is run on the abstract machine; TLC checks the machine's *)
(* invariants at every step, and every terminating behaviour is printed as *)
(* a session that the harness drives through the real interpreter and      *)
(* TraceMachine validates.                                                  *)
(***************************************************************************)
EXTENDS AstB, Json

CONSTANTS NLines, MaxSteps, Tset

A == Var("A", "A", "")
B == Var("B", "B", "")
I == Var("I", "I", "")
J == Var("J", "J", "")
L1 == 0    L2 == 20   L3 == 30   L4 == 40
LineNos == <<0, 20, 30, 40>>     \* (0 is a line number like any other: the linker keeps labels below 0)
PA == SPrint(<<PE(A), PSep(";")>>)
PS(s) == SPrint(<<PE(LStr(s)), PSep(";")>>)

\* the statement templates (each a whole line)
Core ==
  { <<SLet(A, Bin("add", A, LI(1)))>>,
    <<PA>>,
    <<PS(<<88>>)>>,
    <<SGoto(L1)>>, <<SGoto(L3)>>,
    <<SGosub(L3)>>, <<SGosub(L2), PS(<<71>>)>>,
    <<SReturn>>,
    <<SOnGoto(A, <<L2, L3>>)>>,
    <<SOnGosub(A, <<L3>>), PS(<<79>>)>>,
    <<SIf(Bin("lt", A, LI(2)), <<PS(<<84>>)>>, <<PS(<<70>>)>>)>>,
    <<SIfShort(Bin("lt", A, LI(2)), <<SGoto(L1)>>, <<>>)>>,
    <<SFor(I, LI(1), LI(2))>>,
    <<SForStep(I, LI(2), LI(1), LI(1)), PS(<<102>>)>>,
    <<SNext(<<>>)>>, <<SNext(<<I>>)>>,
    <<SWhile(Bin("lt", A, LI(2)))>>,
    <<SWend>>,
    <<SEnd>>, <<SStop>>, <<SRem>>,
    \* a subroutine left from inside its own loop, called from inside a loop of the caller
    <<SFor(I, LI(1), LI(2)), SGosub(L3), PA, SNext(<<>>)>>,
    <<SFor(J, LI(1), LI(2)), SLet(A, Bin("add", A, LI(1))), SReturn>>,
    \* an IF whose THEN part ends the program, as (possibly) the last statement of the listing
    <<SIf(Bin("gt", A, LI(2)), <<PS(<<66>>), SEnd>>, <<>>)>> }
More ==
  { <<SOnGosub(LI(3), <<L3>>), PS(<<111>>)>>,       \* out of range: falls through, pushes nothing
    <<SOnGoto(Un("neg", LI(1)), <<L2>>)>>,          \* negative: ILLEGAL FUNCTION CALL
    <<SIf(A, <<SIf(B, <<PS(<<49>>)>>, <<PS(<<50>>)>>)>>, <<>>)>>,
    <<SIf(Bin("eq", A, LI(0)), <<SLet(A, LI(5)), SGosub(L3), PA>>, <<PS(<<69>>)>>)>>,
    <<SForStep(J, LI(3), LI(1), Un("neg", LI(2))), PA>>,
    <<SFor(J, LI(1), LI(1)), SFor(I, LI(1), LI(2)), PA, SNext(<<I, J>>)>>,
    <<SNext(<<J>>)>>,
    <<STron>>, <<STroff>>,
    <<SLet(B, LI(1)), SLet(A, LI(0))>>,
    <<SGoto(L2)>>, <<SGosub(L4)>>, <<SData(<<MkI(1)>>)>> }
Templates == IF Tset = 1 THEN Core ELSE Core \cup More

VARIABLES m, prog, steps, cmds
vars == <<m, prog, steps, cmds>>

ProgSpace == [1..NLines -> Templates]
Entered(p) == [i \in 1..NLines |-> CLine(LineNos[i], p[i])]
RECURSIVE EnterAll(_, _, _)
EnterAll(mm, p, i) == IF i > NLines THEN mm ELSE EnterAll(EnterLine(mm, LineNos[i], p[i]), p, i + 1)

Init == /\ prog \in ProgSpace
        /\ m = EnterDirect(EnterAll(InitM, prog, 1), <<SRun(-1)>>)
        /\ steps = 0
        /\ cmds = Entered(prog) \o <<CDirect(<<SRun(-1)>>)>>

Run == /\ m.mode = "run" /\ steps < MaxSteps
       /\ m' = Step(m) /\ steps' = steps + 1 /\ UNCHANGED <<prog, cmds>>
\* after a STOP or END the user continues (once)
Cont == /\ m.mode = "ready" /\ m.cont # NoCont /\ ~m.contx /\ Len(cmds) = NLines + 1
        /\ m' = EnterDirect(m, <<SCont>>) /\ cmds' = Append(cmds, CDirect(<<SCont>>))
        /\ UNCHANGED <<prog, steps>>
Next == Run \/ Cont

Done == m.mode = "ready" /\ ~(m.cont # NoCont /\ ~m.contx /\ Len(cmds) = NLines + 1)

\* ---- properties of the abstract machine, checked at every state
TypeOK == /\ m.mode \in {"ready", "run", "input", "oom"}
          /\ m.col >= 0 /\ m.dptr >= 0
VarsTyped == \A k \in DOMAIN m.vars : m.vars[k].t = TypeOfName(k[1], k[3], m.deft) /\ ~IsDefault(m.vars[k])
PoolBounded == Slots(m.ctl) <= Limit
\* a finished or stopped machine is at the prompt with the cursor in column 0
ReadyClean == m.mode = "ready" => m.col = 0
\* statement neutrality: frames change only through FOR / NEXT / GOSUB / RETURN / ON..GOSUB / errors
StmtNeutral ==
  [][ (m.mode = "run" /\ m'.mode = "run" /\ Resolve(m, m.pc).ln # PastEnd) =>
        LET s == StmtAt(CodeOf(m, Resolve(m, m.pc).ln), Resolve(m, m.pc).path) IN
        s.k \notin {"for2", "next", "gosub", "ongosub", "return", "run", "clear"} => m'.ctl = m.ctl ]_vars

SawOom == \E i \in 1..Len(m.resp) : m.resp[i].k = "err" /\ \E e \in m.resp[i].errs : e.code = EOutOfMemory
EmitSess == Done => PrintT(ToJson([R |-> "sess", cmds |-> cmds, oom |-> SawOom]))
=============================================================================
