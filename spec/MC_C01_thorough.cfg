CONSTANT Limit = 12
CONSTANT NLines = 3
CONSTANT MaxSteps = 40
CONSTANT Tset = 2
INIT Init
NEXT Next
INVARIANT TypeOK
INVARIANT VarsTyped
INVARIANT PoolBounded
INVARIANT ReadyClean
INVARIANT EmitSess
PROPERTY StmtNeutral
CHECK_DEADLOCK FALSE
