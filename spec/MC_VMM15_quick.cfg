CONSTANT Limit = 100
CONSTANT Depth = 2
CONSTANT Fuel = 40
CONSTANT Nums = {0, 2, 10, 65529}
CONSTANT Ends = {0, 2, 3, 10, 65529, 65530, 70000}
INIT GInit
NEXT GNext
VIEW GView
CHECK_DEADLOCK FALSE
CONSTANT VFuel = 2500
INVARIANT GRefines
