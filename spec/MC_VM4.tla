------------------------------- MODULE MC_VM4 -------------------------------
(***************************************************************************)
(* The refinement BasicVM => BasicMachine over the edit histories of C04:    *)
(* the implementation keeps a compiled program and recompiles it lazily      *)
(* (dirty flag), the manual-level machine interprets the listing; after      *)
(* every edit, direct statement, RUN / CONT / RETURN / NEXT / GOTO both      *)
(* must agree at the prompt: what runs is the program that LIST shows.       *)
(***************************************************************************)
EXTENDS MC_C04, VMRefine

CONSTANT VFuel
VARIABLE v
gvars == <<m, cmds, nh, v>>

VDo(vv, c) == VRunToWait(VApply(vv, NormCmd(c)), VFuel)
RECURSIVE VFeed(_, _, _)
VFeed(vv, cs, i) == IF i > Len(cs) THEN vv ELSE VFeed(VDo(vv, cs[i]), cs, i + 1)

GInit == Init /\ v = VFeed(InitV, cmds, 1)
GAct(c, h) == /\ m.mode = "ready" /\ v.wait = "stopped"
              /\ m' = Do(m, c, Fuel) /\ cmds' = Append(cmds, c) /\ nh' = nh + h
              /\ v' = VDo(v, c)
GNext == \/ \E c \in Edits \cup Directs : nh < Depth /\ GAct(c, 1)
         \/ \E c \in Endings : nh <= Depth /\ GAct(c, 99)

GRefines == (m.mode # "oom" /\ v.wait # "oom") => Agree(m, v)
\* the compiled program is never stale when something runs: after every command either the
\* listing was not touched since the last compilation, or the dirty flag is set
CacheCoherent == v.dirty \/ v.P.daddr = 0 \/ LET P == CompileProgram(v.lst) IN
                   SubSeq(v.P.link.ops, 1, v.P.daddr - 1) = SubSeq(PLink(P).link.ops, 1, PLink(P).daddr - 1)
NoRunWithErrors == ErrorsBlock(v)
GView == <<m, nh, v>>
=============================================================================
