CONSTANT Limit = 200
CONSTANT Set = "C09"
CONSTANT NLines = 4
CONSTANT Fuel = 80
CONSTANT Size = 2
INIT Init
NEXT Next
INVARIANT VarsTyped
INVARIANT DataInRange
INVARIANT ReadyClean
INVARIANT InputAtStmt
INVARIANT EmitSess
CHECK_DEADLOCK FALSE
