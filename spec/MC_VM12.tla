------------------------------ MODULE MC_VM12 ------------------------------
(***************************************************************************)
(* The refinement BasicVM => BasicMachine over the session prefixes of C12   *)
(* (RUN, RUN n, CONT, CLEAR, NEW followed by another program, direct FOR /   *)
(* GOSUB / DIM / DEFtype / READ, an error): after every command sequence the *)
(* implementation-level machine shows what the manual-level one specifies.   *)
(***************************************************************************)
EXTENDS MC_C12, VMRefine

CONSTANT VFuel
VARIABLE v
gvars == <<m, cmds, nh, v>>

VDo(vv, c) == VRunToWait(VApply(vv, NormCmd(c)), VFuel)
RECURSIVE VFeed(_, _, _)
VFeed(vv, cs, i) == IF i > Len(cs) THEN vv ELSE VFeed(VDo(vv, cs[i]), cs, i + 1)

GInit == Init /\ v = VFeed(InitV, cmds, 1)
GNext == \E seq \in Singles :
           /\ nh < Depth /\ m.mode = "ready" /\ v.wait = "stopped"
           /\ m' = Feed(m, seq, 1) /\ cmds' = cmds \o seq /\ nh' = nh + 1
           /\ v' = VFeed(v, seq, 1)
GRefines == (m.mode # "oom" /\ v.wait # "oom") => Agree(m, v)
GView == <<m, nh, v>>
=============================================================================
