------------------------------ MODULE MC_C12 ------------------------------
(***************************************************************************)
(* C12: RUN, CLEAR and NEW reset state completely.                          *)
(* TLC explores the state graph of the abstract machine under session       *)
(* prefixes that dirty every component of the program state (variables of   *)
(* every type, arrays, DEFtype, user functions, FOR / GOSUB frames left by  *)
(* STOP, by an error, by an abandoned direct FOR, the DATA pointer, the     *)
(* continuation) and checks, as action properties of the specification:     *)
(*   RunIsFresh   : RUN / RUN n from any reachable state behaves exactly as *)
(*                  in a fresh machine holding the same listing;            *)
(*   ClearIsInit  : CLEAR leaves the program state as at start-up;          *)
(*   NewIsEmpty   : NEW additionally leaves an empty listing.               *)
(* Every transition is a session executed by the real interpreter and the   *)
(* whole probe (store, dims, DEFtypes, functions, frames, data pointer,     *)
(* continuable or not) is compared after every command.                     *)
(***************************************************************************)
EXTENDS AstB, Json

CONSTANTS Depth, Fuel

VARIABLES m, cmds, nh
vars == <<m, cmds, nh>>

A == Var("A", "A", "")     AS == Var("A", "A", "$")   N == Var("N", "N", "")   B == Var("B", "B", "")
I == Var("I", "I", "")     J == Var("J", "J", "")     Q == Var("Q", "Q", "")   C == Var("C", "C", "")
X1 == Arr("X", "X", "", <<LI(1)>>)
PS(s) == SPrint(<<PE(LStr(s)), PSep(";")>>)
PV(v) == SPrint(<<PE(v), PSep(";")>>)

Prog == << CLine(10, <<SDefType("I", "N", "N"), SDim(<<Arr("X", "X", "", <<LI(3)>>)>>),
                       SDef("FNA", <<Var("Z", "Z", "")>>, Bin("add", Var("Z", "Z", ""), LI(1))),
                       SLet(A, Bin("add", A, LI(5))), SLet(AS, LStr(<<83>>)), SLet(N, LI(2)), SLet(X1, LI(7)), SRead(<<B>>)>>),
           CLine(20, <<PV(A), PV(B), PV(FnCall("FNA", <<N>>)), SGosub(40)>>),
           CLine(30, <<SEnd>>),
           CLine(40, <<SFor(I, LI(1), LI(3)), SStop>>),
           CLine(50, <<SNext(<<>>), SReturn>>),
           CLine(60, <<SData(<<MkI(9), MkI(8)>>)>>) >>
\* a second program that observes what a stale state would leak: no DEF, no DIM
Prog2 == << CLine(10, <<PV(A), PV(AS), PV(N), SRead(<<C>>), PV(C)>>),
            CLine(20, <<PV(X1), PV(FnCall("FNA", <<LI(1)>>))>>),
            CLine(60, <<SData(<<MkI(4)>>)>>) >>

RECURSIVE Feed(_, _, _)
Feed(mm, cs, i) == IF i > Len(cs) THEN mm ELSE Feed(Do(mm, cs[i], Fuel), cs, i + 1)

Singles == { <<CDirect(<<SRun(-1)>>)>>, <<CDirect(<<SRun(40)>>)>>, <<CDirect(<<SCont>>)>>,
             <<CDirect(<<SClear>>)>>,
             <<CDirect(<<PV(Bin("idiv", LI(1), LI(0)))>>)>>,
             <<CDirect(<<SLet(Q, LI(1)), SLet(AS, LStr(<<81>>))>>)>>,
             <<CDirect(<<SDefType("$", "S", "T")>>)>>,
             <<CDirect(<<SDim(<<Arr("Y", "Y", "", <<LI(2)>>)>>)>>)>>,
             <<CDirect(<<SRead(<<C>>)>>)>>,
             <<CDirect(<<SFor(J, LI(1), LI(2))>>)>>,
             <<CDirect(<<SGosub(40)>>)>>,
             <<CDirect(<<SLet(X1, LI(0)), SLet(Arr("X", "X", "", <<LI(2)>>), LI(1))>>)>>,
             <<CDirect(<<SNew>>)>> \o Prog2,
             <<CDirect(<<SNew>>)>> \o Prog }

Init == m = Feed(InitM, Prog, 1) /\ cmds = Prog /\ nh = 0
Next == \E seq \in Singles :
          /\ nh < Depth /\ m.mode = "ready"
          /\ m' = Feed(m, seq, 1) /\ cmds' = cmds \o seq /\ nh' = nh + 1
          /\ PrintT(ToJson([R |-> "sess", cmds |-> cmds']))

Last == cmds'[Len(cmds')]
IsRunCmd(c) == c.k = "direct" /\ c.stmts[1].k = "run"
Fresh(mm) == WithListing(InitM, mm.lst, mm.src)
\* (a RUN n naming a missing line is refused before anything executes: not a run)
RunIsFresh == [][ (IsRunCmd(Last) /\ m'.mode # "oom" /\ (Last.stmts[1].n < 0 \/ Last.stmts[1].n \in DOMAIN m.lst)) =>
                    LET f == Do(Fresh(m), Last, Fuel) IN
                    /\ ProgState(m') = ProgState(f) /\ m'.resp = f.resp /\ m'.contx = f.contx /\ m'.ctlx = f.ctlx ]_vars
ClearIsInit == [][ (Last.k = "direct" /\ Last.stmts[1].k = "clear") => ProgState(m') = ProgState(InitM) ]_vars
NewIsEmpty == [][ (Last.k = "direct" /\ Last.stmts[1].k = "new") =>
                    (ProgState(m') = ProgState(InitM) /\ m'.lst = EmptyFn /\ ~m'.tron) ]_vars
View == <<m, nh>>
=============================================================================
