CONSTANTS
  Limit = 65535
  NLines = 1
  MaxSteps = 60
  MaxV = 200
  Tset = 2
  WithIntr = TRUE
SPECIFICATION VSpecFair
PROPERTY IntrConverges
CHECK_DEADLOCK FALSE
