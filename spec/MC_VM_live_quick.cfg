CONSTANTS
  Limit = 65535
  NLines = 1
  MaxSteps = 60
  MaxV = 200
  Tset = 2
  WithIntr = TRUE
  IntrWin = 300
SPECIFICATION VSpecFair
PROPERTY IntrConverges
CHECK_DEADLOCK FALSE
