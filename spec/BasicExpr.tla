---------------------------- MODULE BasicExpr ----------------------------
(***************************************************************************)
(* Expression evaluation over AST records, and the variable store.         *)
(*                                                                          *)
(* AST (the JSON shape emitted by the harness generator and by TLC):        *)
(*   [k |-> "lit", v |-> value]                                             *)
(*   [k |-> "var", l, id, sfx]            scalar; l = first letter of id    *)
(*   [k |-> "arr", l, id, sfx, sub |-> <<expr, ...>>]                       *)
(*   [k |-> "un",  op, a]   [k |-> "bin", op, a, b]   [k |-> "par", a]      *)
(*   [k |-> "call", f, args]              built-in function                 *)
(*   [k |-> "fn", id, args]               user function FN<id>              *)
(*   [k |-> "pos"]                        POS(0): the print column          *)
(*                                                                          *)
(* The store: vars is a function from keys <<l, id, sfx, subs>> to values,  *)
(* holding only non-default values (an unassigned name reads as its        *)
(* default, and occupies nothing); dims maps <<id, sfx>> to bounds;         *)
(* deft maps the 26 letters to a type; fns maps FN names to [ps, body].     *)
(***************************************************************************)
EXTENDS BasicValues

Letters == {"A","B","C","D","E","F","G","H","I","J","K","L","M",
            "N","O","P","Q","R","S","T","U","V","W","X","Y","Z"}
LetterIdx == [c \in Letters |->
   CASE c = "A" -> 1 [] c = "B" -> 2 [] c = "C" -> 3 [] c = "D" -> 4 [] c = "E" -> 5
     [] c = "F" -> 6 [] c = "G" -> 7 [] c = "H" -> 8 [] c = "I" -> 9 [] c = "J" -> 10
     [] c = "K" -> 11 [] c = "L" -> 12 [] c = "M" -> 13 [] c = "N" -> 14 [] c = "O" -> 15
     [] c = "P" -> 16 [] c = "Q" -> 17 [] c = "R" -> 18 [] c = "S" -> 19 [] c = "T" -> 20
     [] c = "U" -> 21 [] c = "V" -> 22 [] c = "W" -> 23 [] c = "X" -> 24 [] c = "Y" -> 25
     [] c = "Z" -> 26]

SfxType(sfx) == CASE sfx = "%" -> "I" [] sfx = "!" -> "S" [] sfx = "#" -> "D" [] sfx = "$" -> "$"
DeftInit == [c \in Letters |-> "S"]
\* the declared type of a name: its suffix, else its first letter's DEFtype setting
TypeOfName(l, sfx, deft) == IF sfx = "" THEN deft[l] ELSE SfxType(sfx)

Key(l, id, sfx, subs) == <<l, id, sfx, subs>>
ArrId(id, sfx) == <<id, sfx>>

Fetch(vars, deft, key) ==
  IF key \in DOMAIN vars THEN vars[key] ELSE Default(TypeOfName(key[1], key[3], deft))

\* store a value already converted to the name's type; defaults occupy no slot
Put(vars, key, val) ==
  IF IsDefault(val) THEN [k \in DOMAIN vars \ {key} |-> vars[k]]
  ELSE [k \in DOMAIN vars \cup {key} |-> IF k = key THEN val ELSE vars[k]]

DefaultBound == 10
MaxSub == 32767

\* evaluation state threaded through an expression: dims may grow (auto-dimension)
\* st = [vars, dims, deft, fns, col]; result = [v |-> value, d |-> dims]
R(v, d) == [v |-> v, d |-> d]

\* subscripts: floor; negative or above the bound is SUBSCRIPT OUT OF RANGE
SubVal(v) ==
  CASE IsBad(v) -> v
    [] v.t = "$" -> Err(ETypeMismatch)
    [] ~v.x -> Unknown
    [] OTHER -> LET f == FloorOf(v) IN
                IF f < 0 THEN Err(ESubscript) ELSE IF f > MaxSub THEN Err(AnyErr) ELSE MkI(f)

\* resolve an array element: returns [v |-> Err/Unknown or MkI(0), d |-> dims', key]
ElemKey(l, id, sfx, subvals, dims) ==
  LET aid == ArrId(id, sfx)
      bad == {i \in 1..Len(subvals) : IsBad(SubVal(subvals[i]))}
      fb  == IF bad = {} THEN 0 ELSE CHOOSE i \in bad : \A j \in bad : i <= j
      ns  == [i \in 1..Len(subvals) |-> SubVal(subvals[i]).n]
      d2  == IF aid \in DOMAIN dims THEN dims
             ELSE [a \in DOMAIN dims \cup {aid} |->
                     IF a = aid THEN [i \in 1..Len(subvals) |-> DefaultBound] ELSE dims[a]]
  IN  IF fb # 0 THEN [v |-> SubVal(subvals[fb]), d |-> dims, key |-> <<>>]
      ELSE IF Len(d2[aid]) # Len(ns) \/ \E i \in 1..Len(ns) : ns[i] > d2[aid][i]
           THEN [v |-> Err(ESubscript), d |-> d2, key |-> <<>>]
      ELSE [v |-> MkI(0), d |-> d2, key |-> Key(l, id, sfx, ns)]

\* an error raised while a user function's body is being evaluated: the manual does not say
\* which line it is reported in (the calling statement's or the DEF's); e = 1 marks it
InFn(v) == IF IsErr(v) THEN [v EXCEPT !.e = 1] ELSE v

RECURSIVE Eval(_, _, _, _, _), EvalList(_, _, _, _, _, _)

\* locals: function from <<id, sfx>> of a parameter to its bound value (FN frames)
\* depth: user-function nesting, bounded: expressions have no conditionals, so a call
\* chain longer than the number of defined functions is cyclic and can only end in
\* OUT OF MEMORY
Eval(e, st, d, locals, depth) ==
  CASE e.k = "lit" -> R(e.v, d)
    [] e.k = "par" -> Eval(e.a, st, d, locals, depth)
    [] e.k = "pos" -> R(MkI(st.col), d)
    [] e.k = "var" ->
         IF <<e.id, e.sfx>> \in DOMAIN locals THEN R(locals[<<e.id, e.sfx>>], d)
         ELSE R(Fetch(st.vars, st.deft, Key(e.l, e.id, e.sfx, <<>>)), d)
    [] e.k = "arr" ->
         LET rs == EvalList(e.sub, 1, st, d, locals, depth) IN
         IF rs.bad # 0 THEN R(rs.vs[rs.bad], rs.d)
         ELSE LET ek == ElemKey(e.l, e.id, e.sfx, rs.vs, rs.d) IN
              IF IsBad(ek.v) THEN R(ek.v, ek.d)
              ELSE R(Fetch(st.vars, st.deft, ek.key), ek.d)
    [] e.k = "un" ->
         LET ra == Eval(e.a, st, d, locals, depth) IN R(UnOp(e.op, ra.v), ra.d)
    [] e.k = "bin" ->
         LET ra == Eval(e.a, st, d, locals, depth) IN
         IF IsBad(ra.v) THEN ra
         ELSE LET rb == Eval(e.b, st, ra.d, locals, depth) IN R(BinOp(e.op, ra.v, rb.v), rb.d)
    [] e.k = "call" ->
         LET rs == EvalList(e.args, 1, st, d, locals, depth) IN
         IF rs.bad # 0 THEN R(rs.vs[rs.bad], rs.d)
         ELSE IF e.f = "TAB" THEN
           LET k == ToInt(rs.vs[1]) IN
           IF IsBad(k) THEN R(k, rs.d)
           ELSE IF k.n < -255 \/ k.n > 255 THEN R(Err(AnyErr), rs.d)
           ELSE IF k.n < 0 THEN R(MkStr(Spaces((-k.n) - (st.col % (-k.n)))), rs.d)
           ELSE R(MkStr(Spaces(IF k.n > st.col THEN k.n - st.col ELSE 0)), rs.d)
         ELSE R(Call(e.f, rs.vs), rs.d)
    [] e.k = "fn" ->
         LET rs == EvalList(e.args, 1, st, d, locals, depth) IN
         IF rs.bad # 0 THEN R(rs.vs[rs.bad], rs.d)
         ELSE IF e.id \notin DOMAIN st.fns THEN R(Err(EUndefFn), rs.d)
         ELSE LET f == st.fns[e.id] IN
              IF Len(f.ps) # Len(rs.vs) THEN R(Err(EIllegalFn), rs.d)
              ELSE IF depth > Cardinality(DOMAIN st.fns) THEN R(InFn(Err(EOutOfMemory)), rs.d)
              ELSE LET bound == [i \in 1..Len(f.ps) |->
                                   Assign(TypeOfName(f.ps[i].l, f.ps[i].sfx, st.deft), rs.vs[i])]
                       badb  == {i \in 1..Len(f.ps) : IsBad(bound[i])}
                       fbb   == IF badb = {} THEN 0 ELSE CHOOSE i \in badb : \A j \in badb : i <= j
                       loc   == [p \in {<<f.ps[i].id, f.ps[i].sfx>> : i \in 1..Len(f.ps)} |->
                                   bound[CHOOSE i \in 1..Len(f.ps) : <<f.ps[i].id, f.ps[i].sfx>> = p]]
                   IN  IF fbb # 0 THEN R(InFn(bound[fbb]), rs.d)
                       ELSE LET rb == Eval(f.body, st, rs.d, loc, depth + 1) IN R(InFn(rb.v), rb.d)

\* evaluate es[i..] left to right; stop at the first bad value
EvalList(es, i, st, d, locals, depth) ==
  IF i > Len(es) THEN [vs |-> <<>>, d |-> d, bad |-> 0]
  ELSE LET r == Eval(es[i], st, d, locals, depth) IN
       IF IsBad(r.v) THEN [vs |-> [j \in 1..i |-> r.v], d |-> r.d, bad |-> i]
       ELSE LET rest == EvalList(es, i + 1, st, r.d, locals, depth) IN
            [vs |-> IF rest.bad # 0 THEN rest.vs
                    ELSE <<r.v>> \o rest.vs,
             d |-> rest.d, bad |-> rest.bad]

NoLocals == [x \in {} |-> 0]
EvalTop(e, st) == Eval(e, st, st.dims, NoLocals, 0)
=============================================================================
