CONSTANT Limit = 100
CONSTANT Fuel = 80
CONSTANT Wide = TRUE
INIT Init
NEXT Next
INVARIANT HasFault
INVARIANT DiagInside
INVARIANT EmitSess
PROPERTY NoRun
PROPERTY NoRun10
CHECK_DEADLOCK FALSE
