------------------------------ MODULE MC_C02 ------------------------------
(***************************************************************************)
(* C02: expressions evaluate per documented precedence, promotion and       *)
(* result types.  TLC enumerates, on the value specification:               *)
(*  "bin"  every binary operator x every pair of operand types x boundary   *)
(*         leaves (operands reach the VM through typed variables);          *)
(*  "un"   the unary operators and the numeric functions over the leaves;   *)
(*  "prec" every ordered pair of operators in both tree shapes, rendered    *)
(*         with the minimal parentheses the 13-level table with left        *)
(*         associativity requires (and once fully parenthesised);           *)
(*  "lit"  numeric literals by structure (digits, point, exponent letter,   *)
(*         suffix) against the six typing rules;                            *)
(*  "let"  assignment of every leaf to a target of every type (suffix or    *)
(*         DEFtype): converted value, OVERFLOW or TYPE MISMATCH.            *)
(* Each case carries the value (with its type) or error the manual          *)
(* prescribes and is replayed against the real interpreter.                 *)
(***************************************************************************)
EXTENDS BasicShow, Json

VARIABLE c

Lit(v) == [k |-> "lit", v |-> v]
Bin(op, a, b) == [k |-> "bin", op |-> op, a |-> a, b |-> b]
Un(op, a) == [k |-> "un", op |-> op, a |-> a]
Par(a) == [k |-> "par", a |-> a]
Fn(f, args) == [k |-> "call", f |-> f, args |-> args]
Sfx(t) == CASE t = "I" -> "%" [] t = "S" -> "!" [] t = "D" -> "#" [] t = "$" -> "$"
VarOf(name, t) == [k |-> "var", l |-> name, id |-> name, sfx |-> Sfx(t)]

Leaves == { MkI(-32768), MkI(-1), MkI(0), MkI(1), MkI(2), MkI(7), MkI(32767),
            MkF("S", -3, 1), MkF("S", 1, 1), MkF("S", 2, 0), MkF("S", 32768, 0), MkF("S", 65536, 0), MkF("S", -65537, 1),
            MkF("D", -1, 1), MkF("D", 3, 0), MkF("D", 65535, 1), MkF("D", 2, 0), MkF("D", 1, 1), MkF("D", -3, 1), MkF("D", 32768, 0),
            MkStr(<<>>), MkStr(<<65>>) }
SmallLeaves == { MkI(-32768), MkI(0), MkI(3), MkI(32767), MkF("S", 5, 1), MkF("S", 32768, 0), MkF("D", -7, 2), MkStr(<<65>>) }

Ops == BinOps
UFns == {"ABS", "SGN", "INT", "FIX", "CINT", "CSNG", "CDBL", "SQR", "EXP", "LOG", "SIN", "COS", "TAN", "ATN"}

\* ---- precedence: trees over three Integer leaves, rendered with minimal parentheses
PA == VarOf("P", "I")   QA == VarOf("Q", "I")   RA == VarOf("R", "I")
Triples == { <<7, 3, 2>>, <<-5, 2, 3>>, <<1, 0, -1>>, <<2, 3, 2>> }
\* a child of a binary operator needs parentheses iff it binds less tightly than its slot:
\* left slot admits the same level (left associativity), right slot needs a higher one
NeedL(child, op) == child.k \in {"bin", "un"} /\ Prec(child.op) < Prec(op)
NeedR(child, op) == child.k = "bin" /\ Prec(child.op) <= Prec(op)
RECURSIVE Minimal(_), Full(_)
Minimal(e) ==
  CASE e.k = "bin" -> LET a == Minimal(e.a)  b == Minimal(e.b) IN
                      Bin(e.op, IF NeedL(e.a, e.op) THEN Par(a) ELSE a, IF NeedR(e.b, e.op) THEN Par(b) ELSE b)
    [] e.k = "un"  -> LET a == Minimal(e.a) IN
                      Un(e.op, IF e.a.k = "bin" /\ Prec(e.a.op) < Prec(e.op) THEN Par(a) ELSE a)
    [] OTHER -> e
Full(e) ==
  CASE e.k = "bin" -> Par(Bin(e.op, Full(e.a), Full(e.b)))
    [] e.k = "un"  -> Par(Un(e.op, Full(e.a)))
    [] OTHER -> e
Trees == { Bin(o2, Bin(o1, PA, QA), RA) : o1 \in Ops, o2 \in Ops }
         \cup { Bin(o1, PA, Bin(o2, QA, RA)) : o1 \in Ops, o2 \in Ops }
         \cup { Un(u, Bin(o, PA, QA)) : u \in {"neg", "not"}, o \in Ops }
         \cup { Bin(o, Un(u, PA), QA) : u \in {"neg", "not"}, o \in Ops }
         \cup { Bin(y[2], PA, Un(y[1], QA)) : y \in {z \in {"neg", "not"} \X Ops : Prec(z[2]) < Prec(z[1])} }
         \cup { Un("not", Un("neg", PA)), Un("neg", Un("neg", PA)) }

\* ---- literals by structure
LitShapes == [ip : {"0", "1", "12", "32767", "32768", "1234567", "12345678", "123456789"},
              fp : {"none", "", "5", "25", "125"}, ex : {"", "E", "D"}, ed : {"1", "2"}, sfx : {""}]
             \cup [ip : {"1", "32767", "32768", "300"}, fp : {"none", "5"}, ex : {""}, ed : {"1"}, sfx : {"!", "#", "%"}]
LitText(s) == s.ip \o (IF s.fp = "none" THEN "" ELSE "." \o s.fp) \o (IF s.ex = "" THEN "" ELSE s.ex \o s.ed) \o s.sfx
NDig(s) == Len(s.ip) + (IF s.fp = "none" THEN 0 ELSE Len(s.fp))
\* the six rules of chapter 1, in order
LitType(s) ==
  CASE s.sfx = "!" -> "S" [] s.sfx = "#" -> "D" [] s.sfx = "%" -> "I"
    [] s.ex = "E" -> "S"
    [] s.ex = "D" -> "D"
    [] s.fp # "none" -> IF NDig(s) > 7 THEN "D" ELSE "S"
    [] NDig(s) > 7 -> "D"
    [] ParseDecimal(StrCp(s.ip)).n <= 32767 -> "I"
    [] OTHER -> "S"
LitValue(s) ==
  LET body == [s EXCEPT !.sfx = ""]
      txt == LitText(body)
      d == ParseDecimal(StrCp(IF s.ex = "D" THEN s.ip \o (IF s.fp = "none" THEN "" ELSE "." \o s.fp) \o "E" \o s.ed ELSE txt))
      t == LitType(s) IN
  IF IsBad(d) THEN d
  \* "1.5%": the manual is silent; an Integer literal out of range is an error (code not fixed)
  ELSE IF t = "I" THEN (IF s.fp # "none" THEN Unknown ELSE IF IsErr(ToInt(d)) THEN Err(AnyErr) ELSE ToInt(d))
  ELSE ToFloat(t, d)
\* the manual's rules overlap for E-forms with more than 7 digits; those are left out
LitOK(s) == ~(s.ex # "" /\ NDig(s) > 7) /\ ~(s.ex = "" /\ s.ed = "2")

\* ---- assignment
Targets == { [name |-> "A", sfx |-> sf, def |-> "S"] : sf \in {"%", "!", "#", "$"} }
           \cup { [name |-> "A", sfx |-> "", def |-> d] : d \in {"I", "S", "D", "$"} }
TargetType(t) == IF t.sfx = "" THEN t.def ELSE SfxType(t.sfx)
DefStmt(d) == CASE d = "I" -> "DEFINT A" [] d = "S" -> "DEFSNG A" [] d = "D" -> "DEFDBL A" [] OTHER -> "DEFSTR A"

Cases ==
  [k : {"bin"}, op : Ops, a : Leaves, b : Leaves]
  \cup [k : {"un"}, op : {"neg", "not", "pos"}, a : Leaves]
  \cup [k : {"fn"}, f : UFns, a : Leaves]
  \cup [k : {"prec"}, t : Trees, v : Triples, full : BOOLEAN]
  \cup { [k |-> "lit", s |-> s] : s \in {x \in LitShapes : LitOK(x)} }
  \cup [k : {"let"}, v : Leaves, tg : Targets]

Bind(name, v) == [l |-> name, id |-> name, sfx |-> Sfx(v.t), v |-> v]
EnvOf(cs) ==
  CASE cs.k = "bin" -> <<Bind("P", cs.a), Bind("Q", cs.b)>>
    [] cs.k \in {"un", "fn"} -> <<Bind("P", cs.a)>>
    [] cs.k = "prec" -> <<Bind("P", MkI(cs.v[1])), Bind("Q", MkI(cs.v[2])), Bind("R", MkI(cs.v[3]))>>
    [] cs.k = "let" -> <<Bind("P", cs.v)>>
    [] OTHER -> <<>>
Tree(cs) ==       \* the tree whose value is specified (grouping explicit)
  CASE cs.k = "bin" -> Bin(cs.op, VarOf("P", cs.a.t), VarOf("Q", cs.b.t))
    [] cs.k = "un" -> Un(cs.op, VarOf("P", cs.a.t))
    [] cs.k = "fn" -> Fn(cs.f, <<VarOf("P", cs.a.t)>>)
    [] cs.k = "prec" -> cs.t
    [] cs.k = "let" -> VarOf("P", cs.v.t)
    [] cs.k = "lit" -> Lit(LitValue(cs.s))
ExprOf(cs) ==     \* the tree as written (parentheses as text)
  CASE cs.k = "prec" -> IF cs.full THEN Full(cs.t) ELSE Minimal(cs.t)
    [] cs.k = "lit" -> Lit([LitValue(cs.s) EXCEPT !.t = LitValue(cs.s).t] @@ [txt |-> LitText(cs.s)])
    [] OTHER -> Tree(cs)

VarsOf(env) == [key \in {Key(env[i].l, env[i].id, env[i].sfx, <<>>) : i \in 1..Len(env)} |->
                  LET i == CHOOSE i \in 1..Len(env) : Key(env[i].l, env[i].id, env[i].sfx, <<>>) = key
                  IN env[i].v]
St(env) == [vars |-> VarsOf(env), dims |-> [x \in {} |-> <<>>], deft |-> DeftInit,
            fns |-> [x \in {} |-> 0], col |-> 0]
Expected(cs) ==
  IF cs.k = "let" THEN Assign(TargetType(cs.tg), cs.v)
  ELSE IF cs.k = "lit" THEN LitValue(cs.s)
  ELSE EvalTop(Tree(cs), St(EnvOf(cs))).v

Init == c \in Cases
Next == UNCHANGED c

\* ---- laws on the specification
TypeLaw ==
  LET x == Expected(c) IN
  /\ (c.k = "bin" /\ IsNum(x)) =>
        LET rt == ResType(c.op, c.a.t, c.b.t) IN
        IF rt = "I/S" THEN x.t \in {"I", "S"} ELSE x.t = rt
  /\ (c.k = "bin" /\ c.op \in RelOps /\ ~IsBad(x)) => x \in {MkI(0), MkI(-1)}
  /\ (c.k = "let" /\ ~IsBad(x)) => x.t = TargetType(c.tg)
  /\ (c.k = "bin" /\ c.op \in LogicOps \cup IntOps /\ ~IsBad(x)) => x.t = "I" /\ InInt(x.n)
\* a prec case discriminates when the other grouping of the same operators gives another result
Other(t) == IF t.k = "bin" /\ t.a.k = "bin" THEN Bin(t.a.op, t.a.a, Bin(t.op, t.a.b, t.b))
            ELSE IF t.k = "bin" /\ t.b.k = "bin" THEN Bin(t.b.op, Bin(t.op, t.a, t.b.a), t.b.b)
            ELSE IF t.k = "un" /\ t.a.k = "bin" THEN Bin(t.a.op, Un(t.op, t.a.a), t.a.b)
            ELSE IF t.k = "bin" /\ t.a.k = "un" THEN Un(t.a.op, Bin(t.op, t.a.a, t.b))
            ELSE t
NonTrivial(cs) ==
  LET x == Expected(cs) IN
  CASE cs.k = "prec" -> ~IsUnk(x) /\ EvalTop(Other(cs.t), St(EnvOf(cs))).v # x
    [] cs.k = "bin" -> IsErr(x) \/ cs.a.t # cs.b.t
    [] cs.k = "let" -> IsErr(x) \/ cs.v.t # TargetType(cs.tg)
    [] OTHER -> TRUE

Emit == PrintT(ToJson([R |-> "expr", c |-> c, env |-> EnvOf(c), e |-> ExprOf(c),
                       store |-> (c.k = "let"),
                       target |-> (IF c.k = "let" THEN c.tg.name \o c.tg.sfx ELSE ""),
                       pre |-> (IF c.k = "let" /\ c.tg.sfx = "" THEN <<DefStmt(c.tg.def)>> ELSE <<>>),
                       x |-> Expected(c), nt |-> NonTrivial(c)]))
=============================================================================
