------------------------------ MODULE MC_C14 ------------------------------
(***************************************************************************)
(* C14: RENUM preserves the program and rewrites every reference, or        *)
(* changes nothing.  Programs of two lines (plus a fixed last line) over    *)
(* every referencing statement form (GOTO, GOSUB, IF..THEN n, ..ELSE n,     *)
(* IF..GOTO, ON..GOTO, ON..GOSUB, RESTORE [n], RUN [n], LIST / DELETE in    *)
(* all forms, with a non-ASCII string literal before the reference) x RENUM *)
(* argument triples.  On the specification: RenumExact (numbers as          *)
(* documented, same order, only line-number operands differ, failing RENUM  *)
(* changes nothing) and RenumSound (the renumbered program behaves          *)
(* identically up to the line numbers it reports).  Each case is a session: *)
(* lines, RENUM, LIST (text compared), RUN.                                 *)
(***************************************************************************)
EXTENDS AstB, Json

CONSTANTS Fuel, Uni, Args

UniA == <<0, 10, 20>>
UniB == <<1, 10, 65529>>
ArgsQuick == {<<10, 0, 5, "10,,5">>, <<10, 0, 10, "">>, <<100, 0, 10, "100">>, <<100, 0, 100, "100,,100">>, <<1, 10, 1, "1,10,1">>, <<5, 5, 0, "5,5,0">>, <<20, 10, 10, "20,10">>, <<65529, 0, 10, "65529">>, <<65520, 0, 5, "65520,,5">>, <<0, 0, 1, "0,,1">>, <<10, 20, 10, ",20">>, <<30, 20, 65529, "30,20,65529">>, <<10, 0, 0, "10,,0">>, <<65529, 20, 1, "65529,20,1">>, <<15, 10, 10, "15,10">>, <<1000, 0, 1000, "1000,0,1000">>}
ArgsThorough == {<<10, 0, 10, "">>,
                 <<10, 0, 0, ",,0">>,
                 <<10, 0, 1, ",,1">>,
                 <<10, 0, 10, ",,10">>,
                 <<10, 0, 65529, ",,65529">>,
                 <<10, 0, 10, ",0">>,
                 <<10, 0, 0, ",0,0">>,
                 <<10, 0, 1, ",0,1">>,
                 <<10, 0, 10, ",0,10">>,
                 <<10, 0, 65529, ",0,65529">>,
                 <<10, 10, 10, ",10">>,
                 <<10, 10, 0, ",10,0">>,
                 <<10, 10, 1, ",10,1">>,
                 <<10, 10, 10, ",10,10">>,
                 <<10, 10, 65529, ",10,65529">>,
                 <<10, 20, 10, ",20">>,
                 <<10, 20, 0, ",20,0">>,
                 <<10, 20, 1, ",20,1">>,
                 <<10, 20, 10, ",20,10">>,
                 <<10, 20, 65529, ",20,65529">>,
                 <<10, 65529, 10, ",65529">>,
                 <<10, 65529, 0, ",65529,0">>,
                 <<10, 65529, 1, ",65529,1">>,
                 <<10, 65529, 10, ",65529,10">>,
                 <<10, 65529, 65529, ",65529,65529">>,
                 <<0, 0, 10, "0">>,
                 <<0, 0, 0, "0,,0">>,
                 <<0, 0, 1, "0,,1">>,
                 <<0, 0, 10, "0,,10">>,
                 <<0, 0, 65529, "0,,65529">>,
                 <<0, 0, 10, "0,0">>,
                 <<0, 0, 0, "0,0,0">>,
                 <<0, 0, 1, "0,0,1">>,
                 <<0, 0, 10, "0,0,10">>,
                 <<0, 0, 65529, "0,0,65529">>,
                 <<0, 10, 10, "0,10">>,
                 <<0, 10, 0, "0,10,0">>,
                 <<0, 10, 1, "0,10,1">>,
                 <<0, 10, 10, "0,10,10">>,
                 <<0, 10, 65529, "0,10,65529">>,
                 <<0, 20, 10, "0,20">>,
                 <<0, 20, 0, "0,20,0">>,
                 <<0, 20, 1, "0,20,1">>,
                 <<0, 20, 10, "0,20,10">>,
                 <<0, 20, 65529, "0,20,65529">>,
                 <<0, 65529, 10, "0,65529">>,
                 <<0, 65529, 0, "0,65529,0">>,
                 <<0, 65529, 1, "0,65529,1">>,
                 <<0, 65529, 10, "0,65529,10">>,
                 <<0, 65529, 65529, "0,65529,65529">>,
                 <<1, 0, 10, "1">>,
                 <<1, 0, 0, "1,,0">>,
                 <<1, 0, 1, "1,,1">>,
                 <<1, 0, 10, "1,,10">>,
                 <<1, 0, 65529, "1,,65529">>,
                 <<1, 0, 10, "1,0">>,
                 <<1, 0, 0, "1,0,0">>,
                 <<1, 0, 1, "1,0,1">>,
                 <<1, 0, 10, "1,0,10">>,
                 <<1, 0, 65529, "1,0,65529">>,
                 <<1, 10, 10, "1,10">>,
                 <<1, 10, 0, "1,10,0">>,
                 <<1, 10, 1, "1,10,1">>,
                 <<1, 10, 10, "1,10,10">>,
                 <<1, 10, 65529, "1,10,65529">>,
                 <<1, 20, 10, "1,20">>,
                 <<1, 20, 0, "1,20,0">>,
                 <<1, 20, 1, "1,20,1">>,
                 <<1, 20, 10, "1,20,10">>,
                 <<1, 20, 65529, "1,20,65529">>,
                 <<1, 65529, 10, "1,65529">>,
                 <<1, 65529, 0, "1,65529,0">>,
                 <<1, 65529, 1, "1,65529,1">>,
                 <<1, 65529, 10, "1,65529,10">>,
                 <<1, 65529, 65529, "1,65529,65529">>,
                 <<10, 0, 10, "10">>,
                 <<10, 0, 0, "10,,0">>,
                 <<10, 0, 1, "10,,1">>,
                 <<10, 0, 10, "10,,10">>,
                 <<10, 0, 65529, "10,,65529">>,
                 <<10, 0, 10, "10,0">>,
                 <<10, 0, 0, "10,0,0">>,
                 <<10, 0, 1, "10,0,1">>,
                 <<10, 0, 10, "10,0,10">>,
                 <<10, 0, 65529, "10,0,65529">>,
                 <<10, 10, 10, "10,10">>,
                 <<10, 10, 0, "10,10,0">>,
                 <<10, 10, 1, "10,10,1">>,
                 <<10, 10, 10, "10,10,10">>,
                 <<10, 10, 65529, "10,10,65529">>,
                 <<10, 20, 10, "10,20">>,
                 <<10, 20, 0, "10,20,0">>,
                 <<10, 20, 1, "10,20,1">>,
                 <<10, 20, 10, "10,20,10">>,
                 <<10, 20, 65529, "10,20,65529">>,
                 <<10, 65529, 10, "10,65529">>,
                 <<10, 65529, 0, "10,65529,0">>,
                 <<10, 65529, 1, "10,65529,1">>,
                 <<10, 65529, 10, "10,65529,10">>,
                 <<10, 65529, 65529, "10,65529,65529">>,
                 <<100, 0, 10, "100">>,
                 <<100, 0, 0, "100,,0">>,
                 <<100, 0, 1, "100,,1">>,
                 <<100, 0, 10, "100,,10">>,
                 <<100, 0, 65529, "100,,65529">>,
                 <<100, 0, 10, "100,0">>,
                 <<100, 0, 0, "100,0,0">>,
                 <<100, 0, 1, "100,0,1">>,
                 <<100, 0, 10, "100,0,10">>,
                 <<100, 0, 65529, "100,0,65529">>,
                 <<100, 10, 10, "100,10">>,
                 <<100, 10, 0, "100,10,0">>,
                 <<100, 10, 1, "100,10,1">>,
                 <<100, 10, 10, "100,10,10">>,
                 <<100, 10, 65529, "100,10,65529">>,
                 <<100, 20, 10, "100,20">>,
                 <<100, 20, 0, "100,20,0">>,
                 <<100, 20, 1, "100,20,1">>,
                 <<100, 20, 10, "100,20,10">>,
                 <<100, 20, 65529, "100,20,65529">>,
                 <<100, 65529, 10, "100,65529">>,
                 <<100, 65529, 0, "100,65529,0">>,
                 <<100, 65529, 1, "100,65529,1">>,
                 <<100, 65529, 10, "100,65529,10">>,
                 <<100, 65529, 65529, "100,65529,65529">>,
                 <<65529, 0, 10, "65529">>,
                 <<65529, 0, 0, "65529,,0">>,
                 <<65529, 0, 1, "65529,,1">>,
                 <<65529, 0, 10, "65529,,10">>,
                 <<65529, 0, 65529, "65529,,65529">>,
                 <<65529, 0, 10, "65529,0">>,
                 <<65529, 0, 0, "65529,0,0">>,
                 <<65529, 0, 1, "65529,0,1">>,
                 <<65529, 0, 10, "65529,0,10">>,
                 <<65529, 0, 65529, "65529,0,65529">>,
                 <<65529, 10, 10, "65529,10">>,
                 <<65529, 10, 0, "65529,10,0">>,
                 <<65529, 10, 1, "65529,10,1">>,
                 <<65529, 10, 10, "65529,10,10">>,
                 <<65529, 10, 65529, "65529,10,65529">>,
                 <<65529, 20, 10, "65529,20">>,
                 <<65529, 20, 0, "65529,20,0">>,
                 <<65529, 20, 1, "65529,20,1">>,
                 <<65529, 20, 10, "65529,20,10">>,
                 <<65529, 20, 65529, "65529,20,65529">>,
                 <<65529, 65529, 10, "65529,65529">>,
                 <<65529, 65529, 0, "65529,65529,0">>,
                 <<65529, 65529, 1, "65529,65529,1">>,
                 <<65529, 65529, 10, "65529,65529,10">>,
                 <<65529, 65529, 65529, "65529,65529,65529">>}

VARIABLES prog, ar, done
vars == <<prog, ar, done>>

A == Var("A", "A", "")
PS(s) == SPrint(<<PE(LStr(s)), PSep(";")>>)
Rng(k, a, b, form) == [k |-> k, a |-> a, b |-> b, form |-> form, bare |-> (form = "all")]
Never(ss) == SIf(Bin("eq", A, LI(9)), ss, <<>>)

\* line numbers of the program: Uni = <<n1, n2, n3>> ascending
L(i) == Uni[i]
Templates ==
  { <<PS(<<233>>), SGoto(L(3))>>,
    <<SGosub(L(3)), PS(<<71>>)>>,
    <<SLet(A, Bin("add", A, LI(1))), SIfShort(Bin("lt", A, LI(2)), <<SGoto(L(1))>>, <<SGoto(L(3))>>)>>,
    <<SIf(Bin("lt", A, LI(1)), <<SGoto(L(3))>>, <<PS(<<120>>)>>)>>,
    <<SLet(A, Bin("add", A, LI(1))), SOnGoto(A, <<L(2), L(3)>>)>>,
    <<SLet(A, Bin("add", A, LI(1))), SOnGosub(A, <<L(3), L(3)>>), PS(<<79>>)>>,
    <<SRestore(-1), SRead(<<A>>)>>,
    <<SRestore(L(3)), SRead(<<A>>), SPrint(<<PE(A), PSep(";")>>)>>,
    \* (statements after an IF on the same line belong to its THEN part: nested accordingly)
    <<Never(<<SRun(L(1)), Never(<<SRun(-1)>>)>>)>>,
    <<Never(<<Rng("list", L(1), L(2), "range"), Never(<<Rng("list", 0, L(2), "to")>>)>>)>>,
    <<Never(<<Rng("list", L(2), 65529, "from"), Never(<<Rng("list", L(1), L(1), "one"), Never(<<Rng("list", 0, 65529, "all")>>)>>)>>)>>,
    <<Never(<<Rng("delete", L(1), L(3), "range"), Never(<<Rng("delete", 5, 7, "range")>>)>>)>>,

    <<SLet(A, LI(10)), PS(<<49, 48>>), SGoto(L(3))>>,
    <<SLet(A, Bin("add", A, LI(1))), SPrint(<<PE(Bin("idiv", LI(8), Par(Bin("sub", A, LI(1)))))>>), SGoto(L(3))>>,   \* fails the first time through
    <<SRem>> }
Last == <<PS(<<76>>), SData(<<MkI(4)>>), SIf(Bin("gt", A, LI(5)), <<SEnd>>, <<SReturn>>)>>

Listing(p) == << CLine(L(1), p[1]), CLine(L(2), p[2]), CLine(L(3), Last) >>
Renum(a) == [k |-> "renum", new |-> a[1], old |-> a[2], step |-> a[3], args |-> a[4]]
ListAll == CDirect(<<Rng("list", 0, 65529, "all")>>)
\* after RENUM: LIST, RUN, and a direct jump to the (possibly new) number of the last line
NewL3(a) == LET r == RenumMap({L(1), L(2), L(3)}, a[1], a[2], a[3]) IN IF r.ok /\ r.f[L(3)] <= 65529 THEN r.f[L(3)] ELSE L(3)
Cmds(p, a) == Listing(p) \o <<CDirect(<<Renum(a)>>), ListAll, CDirect(<<SRun(-1)>>), CDirect(<<SGoto(NewL3(a))>>)>>

RECURSIVE Feed(_, _, _)
Feed(mm, cs, i) == IF i > Len(cs) THEN mm ELSE Feed(Do(mm, cs[i], Fuel), cs, i + 1)

Init == prog \in [1..2 -> Templates] /\ ar = <<>> /\ done = FALSE
Next == ~done /\ \E a \in Args : ar' = a /\ done' = TRUE /\ UNCHANGED prog

\* ---- the properties on the specification
Before == Feed(InitM, Listing(prog), 1)
After  == Do(Before, CDirect(<<Renum(ar)>>), Fuel)
Failed(mm) == \E i \in 1..Len(mm.resp) : mm.resp[i].k = "err"
Map == RenumMap(DOMAIN Before.src, ar[1], ar[2], ar[3])
\* statements equal up to line-number operands
RECURSIVE SameShape(_, _)
SameShape(s, t) ==
  /\ s.k = t.k
  /\ CASE s.k \in {"goto", "gosub", "restore", "run"} -> TRUE
       [] s.k \in {"ongoto", "ongosub"} -> s.e = t.e /\ Len(s.ns) = Len(t.ns)
       [] s.k \in {"list", "delete"} -> s.form = t.form
       [] s.k = "if" -> /\ s.c = t.c /\ Len(s.th) = Len(t.th) /\ Len(s.el) = Len(t.el)
                        /\ \A i \in 1..Len(s.th) : SameShape(s.th[i], t.th[i])
                        /\ \A i \in 1..Len(s.el) : SameShape(s.el[i], t.el[i])
       [] OTHER -> s = t
RenumExact ==
  done =>
    IF Failed(After) THEN After.src = Before.src /\ After.lst = Before.lst
    ELSE LET f == Map.f IN
         /\ Map.ok
         /\ DOMAIN After.src = {f[n] : n \in DOMAIN Before.src}
         /\ \A n \in DOMAIN Before.src :
              /\ (n < ar[2] => f[n] = n)
              /\ Len(After.src[f[n]]) = Len(Before.src[n])
              /\ \A i \in 1..Len(Before.src[n]) : SameShape(Before.src[n][i], After.src[f[n]][i])
         /\ \A a \in DOMAIN Before.src : \A b \in DOMAIN Before.src : a < b => f[a] < f[b]
\* the renumbered program behaves identically, up to the line numbers it reports
MapResp(f, resp) == [i \in 1..Len(resp) |->
   IF resp[i].k = "err" THEN [k |-> "err", errs |-> {[code |-> e.code, ln |-> IF e.ln \in DOMAIN f THEN f[e.ln] ELSE e.ln] : e \in resp[i].errs}]
   ELSE resp[i]]
RenumSound ==
  (done /\ ~Failed(After)) =>
    LET r1 == Do(Before, CDirect(<<SRun(-1)>>), Fuel)
        r2 == Do(After, CDirect(<<SRun(-1)>>), Fuel) IN
    (r1.mode # "oom" /\ r2.mode # "oom") => (MapResp(Map.f, r1.resp) = r2.resp /\ r1.vars = r2.vars)

SawOom(resp) == \E i \in 1..Len(resp) : resp[i].k = "err" /\ \E e \in resp[i].errs : e.code = EOutOfMemory
EmitSess == done => LET fin == Feed(InitM, Cmds(prog, ar), 1) IN
            PrintT(ToJson([R |-> "sess", cmds |-> Cmds(prog, ar), oom |-> (fin.mode = "oom" \/ SawOom(fin.resp)),
                           failed |-> Failed(After)]))
=============================================================================
