CONSTANT Limit = 100
CONSTANT Depth = 4
CONSTANT Fuel = 120
INIT Init
NEXT Next
PROPERTY RunIsFresh
PROPERTY ClearIsInit
PROPERTY NewIsEmpty
VIEW View
CHECK_DEADLOCK FALSE
