CONSTANT Wide = TRUE
INIT Init
NEXT Next
INVARIANT Shape
INVARIANT Emit
CHECK_DEADLOCK FALSE
