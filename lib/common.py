"""Shared plumbing for ./check: building the harness, running TLC, collecting REPLAY lines,
known findings, evidence files."""
import json, os, re, subprocess, sys, time, shutil, hashlib

VERIF = os.path.dirname(os.path.dirname(os.path.abspath(__file__)))
SPEC = os.path.join(VERIF, "spec")
HARNESS = os.path.join(VERIF, "harness")
OUT = os.path.join(VERIF, "out")
BVH = os.path.join(HARNESS, "target", "release", "bvh")
TLC_WORKERS = int(os.environ.get("VERIF_TLC_WORKERS", "8"))


class ToolError(Exception):
    pass


def log(*a):
    print(*a, flush=True)


def build_harness():
    """(Re)build the harness against /repo's current working tree, hooks on."""
    t0 = time.time()
    env = dict(os.environ, CARGO_NET_OFFLINE="true")
    r = subprocess.run(["cargo", "build", "--release", "--offline"], cwd=HARNESS, env=env,
                       stdout=subprocess.PIPE, stderr=subprocess.STDOUT, text=True)
    if r.returncode != 0:
        sys.stdout.write(r.stdout[-4000:])
        raise ToolError("harness build failed")
    return time.time() - t0


def outdir(pid):
    d = os.path.join(OUT, pid)
    os.makedirs(d, exist_ok=True)
    return d


_STATS = re.compile(r"(\d+) states generated, (\d+) distinct states found")


def run_tlc(pid, module, cfg, timeout=900, workers=None, extra=None, env_extra=None, simulate=None,
            java_opts=None, tag=None):
    """Run TLC; returns dict(states, distinct, lines=[REPLAY json objects], out=path, ok, violated)."""
    d = outdir(pid)
    base = os.path.splitext(os.path.basename(cfg))[0] + ("_" + tag if tag else "")
    meta = os.path.join(d, "tlc_" + base)
    shutil.rmtree(meta, ignore_errors=True)
    outp = os.path.join(d, base + ".tlcout")
    cmd = ["timeout", str(timeout), "tlc", "-workers", str(workers or TLC_WORKERS), "-metadir", meta,
           "-cleanup", "-noGenerateSpecTE", "-config", cfg]
    if simulate:
        cmd += ["-simulate", simulate]
    if extra:
        cmd += extra
    cmd.append(module)
    env = dict(os.environ)
    if java_opts:
        env["JAVA_TOOL_OPTIONS"] = java_opts
    if env_extra:
        env.update(env_extra)
    t0 = time.time()
    with open(outp, "w") as f:
        r = subprocess.run(cmd, cwd=SPEC, stdout=f, stderr=subprocess.STDOUT, env=env)
    wall = time.time() - t0
    shutil.rmtree(meta, ignore_errors=True)
    res = {"out": outp, "rc": r.returncode, "wall": wall, "generated": 0, "distinct": 0,
           "lines": [], "violated": None, "error": None}
    cases_path = outp + ".cases.ndjson"
    n = 0
    with open(outp, errors="replace") as f, open(cases_path, "w") as cf:
        for line in f:
            if line.startswith('"{'):
                try:
                    inner = json.loads(line)
                    cf.write(inner + "\n")
                    n += 1
                except Exception:
                    res["error"] = "unparsable REPLAY line"
                continue
            m = _STATS.search(line)
            if m:
                res["generated"] = int(m.group(1))
                res["distinct"] = int(m.group(2))
            if line.startswith("Error: Invariant") or "is violated" in line:
                res["violated"] = line.strip()
            elif line.startswith("Error:") and res["error"] is None and res["violated"] is None:
                res["error"] = line.strip()
    res["cases"] = cases_path
    res["ncases"] = n
    if r.returncode == 124:
        res["error"] = "TLC timed out after %ss" % timeout
    res["ok"] = (r.returncode == 0 and res["error"] is None and res["violated"] is None)
    return res


def run_bvh(args, timeout=3600):
    r = subprocess.run([BVH] + args, stdout=subprocess.PIPE, stderr=subprocess.STDOUT, text=True,
                       timeout=timeout)
    if r.returncode not in (0,):
        sys.stdout.write(r.stdout[-3000:])
        raise ToolError("bvh %s exited %s" % (args[0], r.returncode))
    return r.stdout


def load_known():
    p = os.path.join(VERIF, "known_findings.json")
    if not os.path.exists(p):
        return []
    return json.load(open(p)).get("findings", [])


def write_evidence(pid, tier, seed, level, coverage, wall, violations, assumptions):
    ev = {"property_id": pid, "tier": tier, "seed": seed, "level": level, "coverage": coverage,
          "assumptions": assumptions, "wall_s": round(wall, 2), "violations": violations}
    os.makedirs(os.path.join(VERIF, "evidence"), exist_ok=True)
    with open(os.path.join(VERIF, "evidence", pid + ".json"), "w") as f:
        json.dump(ev, f, indent=1, sort_keys=True)
        f.write("\n")


def save_replay(pid, name, obj):
    d = os.path.join(outdir(pid), "replay")
    os.makedirs(d, exist_ok=True)
    p = os.path.join(d, name + ".json")
    with open(p, "w") as f:
        json.dump(obj, f, indent=1)
    return p


def case_id(obj):
    return hashlib.sha1(json.dumps(obj, sort_keys=True).encode()).hexdigest()[:12]
