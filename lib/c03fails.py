import json,glob,collections
c=collections.Counter(); ex={}
for f in glob.glob('/verif/out/C03/replay/*.json'):
    d=json.load(open(f))
    sp=d.get('spec') or {}
    calls=d['observed']['calls']
    last=calls[-1] if calls else {}
    key=(d['observed']['end'], last.get('call'), last.get('ret'), last.get('cls'), json.dumps(sp.get('pre')), json.dumps(last.get('post')))
    c[key]+=1; ex.setdefault(key,f)
for k,v in c.most_common(12): print(v,k[:4]); print('    pre ',k[4]); print('    post',k[5]); print('   ',ex[k])
