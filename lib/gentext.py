"""Sessions that exist only as source text: the repository's own tests (the lines they enter) and the
examples of the manual (src/doc).  Each becomes a session of {"k":"text"} commands; the harness lets the
interpreter's parser translate each line into the specification's AST at run time."""
import glob, os, re

ENTER = re.compile(r'\.enter\(\s*(?:r#"(.*?)"#|"((?:[^"\\]|\\.)*)")\s*\)', re.S)


def _unescape(s):
    return s.encode("utf-8").decode("unicode_escape").encode("latin-1", "ignore").decode("utf-8", "ignore") if "\\" in s else s


def _no_key_wait(sessions):
    """programs that loop until a key is pressed never end in these sessions (no key is ever pressed)"""
    def waits(t):
        t = (t or "").upper()
        return "INKEY$" in t and any(w in t for w in ("WHILE", "GOTO", "IF ", "FOR "))
    return [s_ for s_ in sessions if not any(waits(c.get("text")) for c in s_["cmds"])]


def test_sessions(repo="/repo"):
    out = []
    for path in sorted(glob.glob(os.path.join(repo, "tests", "*_test.rs"))):
        src = open(path).read()
        parts = re.split(r'#\[test\]', src)[1:]
        for part in parts:
            m = re.search(r'fn\s+(\w+)', part)
            name = m.group(1) if m else "t"
            lines = []
            for a, b in ENTER.findall(part):
                lines.append(a if a else _unescape(b))
            if lines:
                out.append({"id": "test:%s:%s" % (os.path.basename(path)[:-3], name), "textual": True,
                            "cmds": [{"k": "text", "text": t} for t in lines]})
    return _no_key_wait(out)


INPUT_LIKE = re.compile(r'^(\d+\s|\d+$|RUN\b|CONT\b|LIST\b|NEW\b|CLEAR\b|PRINT\b|\?|LET\b|DEF\b|DIM\b|DEFINT\b|DEFSTR\b|DEFSNG\b|DEFDBL\b|'
                        r'TRON\b|TROFF\b|DELETE\b|RENUM\b|FOR\b|[A-Z][A-Z0-9]*[$%!#]?\s*(\(.*\))?\s*=[^=])')


def doc_sessions(repo="/repo"):
    out = []
    for path in sorted(glob.glob(os.path.join(repo, "src", "doc", "**", "*.rs"), recursive=True)):
        src = open(path).read()
        for i, block in enumerate(re.findall(r'```text\n(.*?)```', src, re.S)):
            lines = []
            for ln in block.splitlines():
                t = ln.strip() if ln.startswith("    ") else ln.rstrip()
                t = re.sub(r"\s+' .*$", "", t) if re.match(r"^(DELETE|LIST|LET|[A-Z]+[!#%$]? =)", t) else t
                if t and INPUT_LIKE.match(t) and not t.startswith(" "):
                    lines.append(t)
            if lines:
                out.append({"id": "doc:%s:%d" % (os.path.relpath(path, os.path.join(repo, "src", "doc")), i), "textual": True,
                            "cmds": [{"k": "text", "text": t} for t in lines]})
    return _no_key_wait(out)
