"""C03 scripts: sequences of terminal-level operations (lines, replies, interrupts, snapshots, file
loads) whose content is arbitrary; the shell specification constrains only the state sequence."""
import random, itertools

SIGMA = "19.EDedAFGOTRMNX$!#%&H\"'?:;,()+-*/\\^<=> é\u00a0\u3000"

MENU_LINES = ["10 INPUT A", "10 INPUT \"Q\";A,B$", "10 INPUT A$", "20 PRINT A;", "30 A$=INKEY$", "40 GOTO 10", "40 GOTO 40", "50 END", "60 STOP",
              "15", "99", "70 FOR I=1 TO 3:PRINT I:NEXT", "80 GOSUB 80", "90 X=1\\0", "100 WHILE 1:WEND", "110 LIST",
              "120 PRINT \"A\";:STOP", "130 DATA 1,2", "140 READ A,B,C", "10", "150 IF A THEN 999", "160 WEND"]
MENU_DIRECT = ["RUN", "RUN 40", "RUN 70", "LIST", "LIST 10-50", "LIST 50-10", "DELETE 40-10", "LIST 65529-0", "LIST 70000", "DELETE 99999-5",
               "LIST -", "DELETE -", "LIST 10-10-10", "RUN 65530", "GOTO 99999", "RENUM 65529,0,65529", "RENUM 1,2,3,4", "CONT", "NEW", "CLEAR", "PRINT 1\\0", "PRINT 1", "PRINT \"X\";",
               "FOR I=1 TO 30000:NEXT", "LOAD \"P1\"", "RUN \"P1\"", "LOAD \"NOFILE\"", "SAVE \"OUT\"", "GOTO 40", "GOTO 70",
               "GOSUB 60", "RETURN", "NEXT", "INPUT Z", "K$=INKEY$", "DELETE 10-20", "DELETE", "RENUM", "RENUM 100,,0", "TRON",
               "TROFF", "A=1:B=2:PRINT A+B", "", "   ", "?", "'", "END", "STOP", "DEF FNA(X)=X", "LOAD", "1E", "PRINT 1EE",
               "X" * 1025, "PRINT \"" + "é" * 600 + "\"", "10 " + "A" * 1030]
REPLIES = ["1", "1,2", "", "X", "1,\"A,B\"", "," * 5, "9" * 1100, "1e99", "&HFF", "é", "\"", "1,\"", " \" ", "\"\"", "1,\"\"\""]
FILES = {"P1": "10 PRINT \"P\";\n20 INPUT A\n30 GOTO 10\n", "BAD": "10 PRINT 1\nPRINT 2\n"}


def menu_sessions(seed, n, depth):
    r = random.Random(seed)
    out = []
    for i in range(n):
        ops = []
        for _ in range(depth):
            k = r.random()
            if k < 0.30:
                ops.append({"op": "line", "text": r.choice(MENU_LINES)})
            elif k < 0.62:
                op = {"op": "line", "text": r.choice(MENU_DIRECT)}
                if r.random() < 0.35:
                    op["int_after"] = r.choice([0, 1, 2, 3, 5, 8, 13])
                ops.append(op)
            elif k < 0.74:
                ops.append({"op": "line", "text": r.choice(REPLIES)})
            elif k < 0.86:
                ops.append({"op": "int"})
            elif k < 0.94:
                ops.append({"op": "snap"})
            else:
                ops.append({"op": "drop"})
        out.append({"id": "menu-%d-%d" % (seed, i), "q": r.choice([1, 7, 5000]), "maxexec": r.choice([30, 120, 400]),
                    "ops": ops, "files": FILES})
    return out


def short_string_sessions(maxlen, per_session=400, prefix="short"):
    out, ops = [], []
    n = 0
    for k in range(1, maxlen + 1):
        for t in itertools.product(SIGMA, repeat=k):
            ops.append({"op": "line", "text": "".join(t)})
            if len(ops) >= per_session:
                out.append({"id": "%s-%d" % (prefix, n), "q": 5000, "maxexec": 12, "ops": ops, "files": {}})
                ops = []
                n += 1
    if ops:
        out.append({"id": "%s-%d" % (prefix, n), "q": 5000, "maxexec": 12, "ops": ops, "files": {}})
    return out


RSIGMA = "\",1A -.&é"
INPUT_FORMS = ["INPUT A", "INPUT A$", "INPUT A%", "INPUT A,B$", "INPUT A$,B$", "INPUT ,A$", "INPUT \"P\";X(1),Y$(1)"]


def reply_sessions(maxlen, per_session=60, prefix="reply"):
    """every INPUT form x every reply of up to maxlen characters over a small alphabet; after the
    reply the program is interrupted (if it still asks) and the shell must answer again"""
    out, n = [], 0
    replies = [""]
    for k in range(1, maxlen + 1):
        replies += ["".join(t) for t in itertools.product(RSIGMA, repeat=k)]
    for form in INPUT_FORMS:
        ops = [{"op": "line", "text": "10 " + form}, {"op": "line", "text": "20 PRINT \"K\";A;A$;B$"}]
        cnt = 0
        for rp in replies:
            ops += [{"op": "line", "text": "RUN"}, {"op": "line", "text": rp}, {"op": "int"}, {"op": "line", "text": "PRINT 1"}]
            cnt += 1
            if cnt >= per_session:
                out.append({"id": "%s-%d" % (prefix, n), "q": 5000, "maxexec": 40, "ops": ops, "files": {}})
                n += 1
                cnt = 0
                ops = [{"op": "line", "text": "10 " + form}, {"op": "line", "text": "20 PRINT \"K\";A;A$;B$"}]
        if cnt:
            out.append({"id": "%s-%d" % (prefix, n), "q": 5000, "maxexec": 40, "ops": ops, "files": {}})
            n += 1
    return out


def builtin_sessions(per_session=120, prefix="fn"):
    """every built-in function and every statement taking a number, with boundary arguments (0, negatives, the
    16-bit limits, huge and tiny floats, a string where a number is expected and the reverse): none may crash"""
    nums = ["0", "-1", "1", "0.5", "-0.5", "255", "256", "-255", "-256", "32767", "-32768", "32768", "65535", "65536", "1E38",
            "-1E38", "1D308", "1E-38", "\"\"", "\"A\"", "\"é\"", "A", "A$"]
    f1 = ["ABS", "ASC", "ATN", "CDBL", "CHR$", "CINT", "COS", "CSNG", "EXP", "FIX", "HEX$", "INT", "LEN", "LOG", "OCT$", "POS",
          "RND", "SGN", "SIN", "SPC", "SQR", "STR$", "TAB", "TAN", "VAL"]
    lines = []
    for f in f1:
        for x in nums:
            lines.append("PRINT %s(%s);" % (f, x))
    for x in nums:
        lines += ["PRINT LEFT$(\"AB\",%s);" % x, "PRINT RIGHT$(\"AB\",%s);" % x, "PRINT MID$(\"AB\",%s);" % x,
                  "PRINT MID$(\"AB\",1,%s);" % x, "PRINT MID$(\"AB\",%s,1);" % x, "PRINT STRING$(%s,\"A\");" % x,
                  "PRINT STRING$(2,%s);" % x, "PRINT INSTR(%s,\"AB\",\"B\");" % x, "PRINT INSTR(\"AB\",%s);" % x,
                  "PRINT LEFT$(%s,1);" % x, "PRINT TAB(%s);\"x\";TAB(%s);\"y\"" % (x, x), "PRINT 1,TAB(%s);2" % x,
                  "PRINT SPC(%s);1" % x, "DIM Q(%s)" % x, "Q(%s)=1" % x, "ON %s GOTO 10,20" % x, "ON %s GOSUB 10" % x,
                  "FOR I=1 TO 3 STEP %s:NEXT" % x, "FOR I=%s TO %s:NEXT" % (x, x), "MID$(A$,%s)=\"z\"" % x,
                  "A$=\"ABC\":MID$(A$,1,%s)=\"z\":PRINT A$" % x, "PRINT 1^%s;2 MOD %s;3\\%s" % (x, x, x),
                  "PRINT %s AND %s;NOT %s" % (x, x, x), "A%%=%s" % x, "A!=%s" % x, "A#=%s" % x, "A$=%s" % x,
                  "RESTORE %s" % x, "LIST %s" % x, "DELETE %s" % x, "RUN %s" % x, "GOTO %s" % x, "RENUM %s" % x,
                  "DEFINT %s" % x, "SWAP A,%s" % x, "ERASE %s" % x, "CLEAR %s" % x]
    out, n = [], 0
    for i in range(0, len(lines), per_session):
        ops = [{"op": "line", "text": "10 REM"}, {"op": "line", "text": "20 REM"}]
        ops += [{"op": "line", "text": t} for t in lines[i:i + per_session]]
        out.append({"id": "%s-%d" % (prefix, n), "q": 5000, "maxexec": 40, "ops": ops, "files": {}})
        n += 1
    return out


def soup_sessions(seed, n, lines):
    """random byte / token soup and damaged program lines, run with interrupts and replies"""
    r = random.Random(seed)
    words = ["PRINT", "GOTO", "GOSUB", "FOR", "TO", "NEXT", "IF", "THEN", "ELSE", "INPUT", "REM", "DATA", "READ", "ON", "DEF",
             "FN", "DIM", "LET", "MID$", "LEFT$", "CHR$", "(", ")", ",", ";", ":", "=", "<", ">", "+", "-", "*", "/", "^", "\\",
             "\"", "1", "10", "65529", "65530", "1E38", "1D308", "&HFFFF", "A", "A$", "A%", "X(", "é", "😀", " ", "\t",
             "\u00a0", "\u2003", "\u3000", "\u0085"]
    out = []
    for i in range(n):
        ops = []
        for _ in range(r.randint(3, 14)):
            k = r.random()
            if k < 0.3:
                t = "".join(r.choice(words) + r.choice(["", " "]) for _ in range(r.randint(1, 40)))
                if r.random() < 0.5:
                    t = "%d %s" % (r.choice([0, 1, 10, 20, 65529, 65530, 99999]), t)
            elif k < 0.5:
                ln = r.choice([1, 64, 1023, 1024, 1025, 4096])
                t = "".join(chr(r.choice([r.randint(32, 126), r.randint(32, 126), r.randint(160, 0x2FF), 0x1F600, 9]))
                            for _ in range(ln))
                t = t.encode("utf-8")[:ln].decode("utf-8", "ignore")
            elif k < 0.85 and lines:
                t = r.choice(lines)
            elif k < 0.92:
                t = "%s %d-%d" % (r.choice(["LIST", "DELETE", "LIST", "RENUM"]), r.choice([0, 5, 10, 20, 65529, 65530, 99999]),
                                  r.choice([0, 5, 10, 20, 65529, 65530]))
            else:
                t = r.choice(["RUN", "LIST", "CONT", "NEW", "RUN 10", "GOTO 10"])
            op = {"op": "line", "text": t}
            if r.random() < 0.2:
                op["int_after"] = r.randint(0, 6)
            ops.append(op)
            if r.random() < 0.15:
                ops.append({"op": r.choice(["int", "snap", "drop"])})
        ops.append({"op": "line", "text": "RUN"})
        ops.append({"op": "line", "text": r.choice(REPLIES)})
        ops.append({"op": "int"})
        ops.append({"op": "line", "text": "PRINT 1"})
        out.append({"id": "soup-%d-%d" % (seed, i), "q": r.choice([1, 7, 5000]), "maxexec": 200, "ops": ops, "files": FILES})
    return out
