"""Builders for the AST records shared by the TLA+ specification and the Rust renderer."""

def V(t, n=0, e=0, s=None, x=True):
    return {"t": t, "n": n, "e": e, "s": s or [], "x": x}

def norm(n, e):
    while e > 0 and n % 2 == 0:
        n //= 2
        e -= 1
    return n, e

def I(n): return {"k": "lit", "v": V("I", n)}
def S(n, e=0):
    n, e = norm(n, e); return {"k": "lit", "v": V("S", n, e)}
def D(n, e=0):
    n, e = norm(n, e); return {"k": "lit", "v": V("D", n, e)}
def cps(s): return [ord(c) for c in s]
def Str(s): return {"k": "lit", "v": V("$", 0, 0, cps(s))}
def var(name):
    sfx = name[-1] if name[-1] in "%!#$" else ""
    ident = name[:-1] if sfx else name
    return {"k": "var", "l": ident[0], "id": ident, "sfx": sfx}
def arr(name, *subs):
    v = var(name); v["k"] = "arr"; v["sub"] = list(subs); return v
def un(op, a): return {"k": "un", "op": op, "a": a}
def bin_(op, a, b): return {"k": "bin", "op": op, "a": a, "b": b}
def par(a): return {"k": "par", "a": a}
def call(f, *args): return {"k": "call", "f": f, "args": list(args)}
def fn(ident, *args): return {"k": "fn", "id": ident, "args": list(args)}
def pos(): return {"k": "pos"}

# statements
def let(v, e, kw=False): return {"k": "let", "v": v, "e": e, "kw": kw}
def pr(*items, q=False):
    its = []
    for it in items:
        if it in (";", ","):
            its.append({"sep": it})
        else:
            its.append({"e": it})
    return {"k": "print", "items": its, "q": q}
def goto(n): return {"k": "goto", "n": n}
def gosub(n): return {"k": "gosub", "n": n}
def ret(): return {"k": "return"}
def ongoto(e, *ns): return {"k": "ongoto", "e": e, "ns": list(ns)}
def ongosub(e, *ns): return {"k": "ongosub", "e": e, "ns": list(ns)}
def if_(c, th, el=None, short=False): return {"k": "if", "c": c, "th": th, "el": el or [], "short": short}
def for_(v, a, b, c=None):
    return {"k": "for", "v": v, "a": a, "b": b, "c": c if c is not None else I(1), "nostep": c is None}
def next_(*vs): return {"k": "next", "vs": list(vs)}
def while_(c): return {"k": "while", "c": c}
def wend(): return {"k": "wend"}
def end(): return {"k": "end"}
def stop(): return {"k": "stop"}
def rem(txt=""): return {"k": "rem", "txt": txt, "cp": cps(txt)}
def data(*vals): return {"k": "data", "vals": [v["v"] for v in vals]}
def read(*vs): return {"k": "read", "vs": list(vs)}
def restore(n=-1): return {"k": "restore", "n": n}
def dim(*vs): return {"k": "dim", "vs": list(vs)}
def erase(*vs): return {"k": "erase", "vs": list(vs)}
def def_(ident, ps, e): return {"k": "def", "id": ident, "ps": ps, "e": e}
def deftype(t, a, b=None): return {"k": "deftype", "t": t, "a": a, "b": b or a}
def swap(v1, v2): return {"k": "swap", "v1": v1, "v2": v2}
def mid(v, p, n, e):
    return {"k": "mid", "v": v, "p": p, "n": n if n is not None else I(32767), "non": n is None, "e": e}
def input_(vs, prompt=None, caps=True):
    return {"k": "input", "caps": caps, "prompt": cps(prompt or ""), "hasp": prompt is not None, "vs": vs}
def clear(): return {"k": "clear"}
def run(n=-1): return {"k": "run", "n": n}
def cont(): return {"k": "cont"}
def tron(): return {"k": "tron"}
def troff(): return {"k": "troff"}
def new(): return {"k": "new"}
def cls(): return {"k": "cls"}
def delete(a=None, b=None, form=None):
    return _range("delete", a, b, form)
def list_(a=None, b=None, form=None):
    return _range("list", a, b, form)
def _range(k, a, b, form):
    if form is None:
        form = "all" if a is None and b is None else "one" if b is None else "to" if a is None else "range"
    if form == "one": b = a
    if form == "from": b = 65529
    return {"k": k, "a": 0 if a is None else a, "b": 65529 if b is None else b, "form": form,
            "bare": form == "all"}
def renum(new=None, old=None, step=None):
    parts = ["" if new is None else str(new), "" if old is None else str(old), "" if step is None else str(step)]
    while parts and parts[-1] == "":
        parts.pop()
    return {"k": "renum", "new": 10 if new is None else new, "old": 0 if old is None else old,
            "step": 10 if step is None else step, "args": ",".join(parts)}
def bad(txt, code=2): return {"k": "bad", "txt": txt, "cp": cps(txt), "code": code}

# commands
def line(n, *stmts): return {"k": "line", "n": n, "stmts": list(stmts)}
def direct(*stmts, **kw):
    d = {"k": "direct", "stmts": list(stmts)}; d.update(kw); return d
def reply(s): return {"k": "reply", "s": cps(s)}
def interrupt(): return {"k": "int"}
def session(ident, cmds, **kw):
    d = {"id": ident, "cmds": cmds}; d.update(kw); return d
