#!/usr/bin/env python3
"""regenerate section I.6 of DESIGN.md (seeded changes and which checks catch them) from /verif/seeded"""
import json, os, glob
VERIF = os.path.dirname(os.path.dirname(os.path.abspath(__file__)))
rows = []
for d in sorted(glob.glob(os.path.join(VERIF, "seeded", "*", "meta.json"))):
    m = json.load(open(d))
    name = os.path.basename(os.path.dirname(d))
    what = (m.get("what_it_breaks") or "").replace("\n", " ").replace("|", "/")
    if len(what) > 240:
        what = what[:237] + "..."
    needs = (m.get("needs_to_manifest") or "").replace("\n", " ").replace("|", "/")
    if len(needs) > 160:
        needs = needs[:157] + "..."
    ran = ", ".join("%s: %s" % (c, "VIOLATION" if v.get("exit") == 1 and v.get("violations") else ("ok (missed)" if v.get("exit") == 0 else "tool error"))
                    for c, v in sorted(m.get("checks", {}).items()) if isinstance(v, dict))
    rows.append("| %s | %s | %s | %s | %s |" % (name, m.get("property"), what, needs, ran))
rev = {}
p = os.path.join(VERIF, "seeded", "reverts.json")
if os.path.exists(p):
    rev = json.load(open(p))
out = []
out.append("Independent sub-agents were given only the text of one property and a scratch worktree of /repo and asked for a "
           "change that breaks the property while compiling and passing the 95 existing tests, with a demonstration test. "
           "Each change was confirmed in a scratch worktree (existing suite passes with it; demonstration fails with it and "
           "passes without it) and then run against the checks (`lib/seed.py`; patch, demonstration and meta.json are under "
           "`/verif/seeded/<name>/`). The last column is the result of the *current* quick checks with the change applied: every "
           "change was first run against /repo itself (`git -C /repo apply`, `./check`, `git -C /repo checkout -- .`; rounds 1-2) "
           "or against a scratch worktree with a copy of /verif built against it (`lib/seed_iso.py`; rounds 3-7); at the end "
           "of round 5 all 60 changes of rounds 1-5 were re-run in isolated copies against the checks of that moment.\n")
out.append("| seeded change | property | what it does | what it needs to manifest | quick checks |")
out.append("|---|---|---|---|---|")
out += rows
out.append("")
out.append("Changes that the first version of a check **missed** and what was strengthened (each check was re-run on the "
           "unchanged tree afterwards): C01-agent1 / C18-agent1 (RETURN out of a subroutine's own FOR loop, called from inside a "
           "loop: templates for that shape in MC_C01, subroutines with loops in the random generator, `subret` leak templates); "
           "C08-agent1 (Doubles a 1024th away from the Integer limits: Double mantissas up to 2^30 in the value model, `fine` "
           "cases in MC_C08); C10-agent1 (parameters in later argument positions of nested calls, built-ins, subscripts: FNC / "
           "FNE templates); C13-agent1 / C13-agent2 (CONT after an interrupt during INPUT / LIST, INPUT followed by STOP under "
           "quantum 2: INPUT fields and LIST lines became micro-steps of the abstract machine, sweeps over replies and LIST, "
           "INPUT sessions in the quantum stage); C20-agent1 (IF .. END as last statement with the other branch taken: template "
           "in MC_C01 / MC_C20); C05-agent1 (a literal typed against E / D: `?` and `:` added to the reduced alphabet so that "
           "the affected lines parse); C03-agent1 (inverted LIST / DELETE ranges in the menu and soup); C04-agent2 (a program "
           "that deletes its own lines, then CONT: SelfEdit prefix in MC_C04); C06-agent2 (ERASE of an array whose name is the "
           "tail of another's: B / AB, B$ / AB$ in the universe, use-and-erase composite actions); "
           "round 3: C03-agent2 (a reply that is a single quotation mark: a stage with every INPUT form x every reply up to the "
           "bound over the reply alphabet in C03), C07-agent2 (ASC of a character in U+8000..U+FFFF: first characters around "
           "the 16-bit limits, CHR$(ASC(..)) round trips in MC_C07), C10-agent2 (functions whose names differ only in the type "
           "suffix sharing a parameter slot: FNS% / FNS# and FNA / FNA$ templates in MC_Prog C10), C18-agent2 (a zero that only "
           "the conversion to the variable's type produces keeps its slot: `zeroconv` leak template -- the probe already "
           "compared the whole store, no session produced such a zero); "
           "round 4: C04-agent3 (a direct statement refused at compile time, then an edit, then RUN: the stale diagnostic "
           "was filed against the program -- a failing direct statement added to MC_C04's menu), C17-agent3 (hexadecimal "
           "replies containing the digit D read as E: &HD, &h1d, &HDE among the replies of MC_Prog C17 and the VAL texts of "
           "MC_C07), C20-agent3 (no END appended after a final ON..GOTO that falls through: such a last line among MC_C20's "
           "templates; C01 ended in a tool error on this change because hundreds of sessions printed until their budget ran "
           "out -- responses of commands that exhaust the budget are now cut to 200 events); "
           "round 5: C05-agent3 (indentation after the line number shrinks with every listing: a fixed family of layouts "
           "-- 0-5 blanks after the number, runs of blanks and tabs between tokens -- in C05), C10-agent3 (a second DEF of "
           "the same function keeps the first one's parameter count: a two-parameter FNA among the templates of MC_Prog "
           "C10), C03-agent3 (a line beginning with a non-ASCII blank panics the lexer: U+00A0 and U+3000 in C03's "
           "alphabets -- and a defect of the harness itself: it classified each line with the interpreter's lexer "
           "outside its panic guard, the script's thread died and the session was recorded as finished; the call is "
           "guarded now and a script thread that ends without reporting the end counts as a panic); "
           "round 6: C19-agent4 (deleting a referenced line by its bare number while a stopped program is continuable no longer "
           "cancels CONT: sessions in which an edit introduces the fault after STOP, then CONT / RETURN / NEXT / RUN / GOTO, in "
           "C19), C03-agent4 (TAB(0) divides by zero: a stage with every built-in function and every statement taking a number, "
           "with boundary arguments, in C03), C05-agent4 (LOAD refuses a line of exactly 1024 bytes that the prompt accepts: "
           "the SAVE-then-LOAD relation through Listing::load_str for every numbered line of C05's cases, and lines at the "
           "limit), C10-agent4 (a call in the last position of a function body reuses the frame, so runaway recursion never "
           "ends: such a definition among the templates of MC_Prog C10), C11-agent4 (a keyboard poll resets the print column: "
           "INKEY$ -- no key pressed -- entered the specification, the harness answers the poll, PRINT templates with a poll "
           "before TAB / zones / POS); "
           "round 7 (*-agent4 of C01, C06, C08, C09, C12, C14, C16, C18): C01-agent4 (the linker relocates line number 0 like a "
           "fragment-local label, so a branch to line 0 from inside an IF clause or after an earlier FOR / GOSUB / IF / WHILE resolves "
           "to the wrong address: no program of MC_C01's grammar or of the random generator had a line 0 -- MC_C01's first line is now "
           "line 0, so every GOTO / THEN / ON .. GOTO template that targets the first line exercises it, in C01 and in the checks that "
           "reuse these sessions, C13, C16, C18); C16-agent4 (the adjacent spelling `=>` no longer collapses into >=: MC_C16's alias "
           "variant wrote `= >` only -- a sixth variant with the remaining spellings `= <`, `=>`, `> <` was added while the change was "
           "being confirmed, the recorded run is against the strengthened check); C18-agent4 (`Var::store` tests the limit after the "
           "store: an assignment refused with OUT OF MEMORY has taken effect and the pool grows past 64K -- visible only with 65535 "
           "live variables, which no check reached: a store of that size cannot be carried through TraceMachine, so the rule of "
           "BasicMachine's store was abstracted into `PoolLimit` -- cardinality plus four named scalars, same test, same order --, "
           "model-checked with Limit = 3 and bound to the code with the real limit by `PoolTrace`: 26 commands around the edge of the "
           "pool, the probe's count of stored variables after each); "
           "C04-agent1 was caught only "
           "through an identity RENUM, where the specification demanded more than the property (see I.5) -- the specification "
           "was relaxed there and MC_C14 got a RENUM that moves earlier lines but not the last, a failing statement and a direct "
           "GOTO to a new number, which catch it for the right reason.\n")
if rev:
    n = sum(1 for v in rev.values() if v.get("caught"))
    out.append("**Reverting each `fix:` commit** (`lib/reverts.py`: `git apply -R` of the commit's diff, the property's quick check, "
               "restore): %d of %d reverts that apply cleanly are reported as VIOLATION by the check of the property they were "
               "found under (`/verif/seeded/reverts.json`). The three that do not revert cleanly (later fixes touch the same "
               "lines) were re-created by hand and are caught (bare-number-clears-dirty by C04, renum-omitted-operands by C14, "
               "lexer-hang by C05 and C03). `lexer-second-exponent-lowercase` reverted alone produces lines that are rejected "
               "before and after listing, so C05's relations hold; it is a C16 matter (upper- and lower-case spelling list "
               "differently) and is caught by the letter-case stage added to C16.\n" % (n, sum(1 for v in rev.values() if "caught" in v)))
text = "\n".join(out)
p = os.path.join(VERIF, "DESIGN.md")
s = open(p).read()
a = s.index("## I.6 Seeded changes")
b = s.index("## I.7 What is not covered")
s = s[:a] + "## I.6 Seeded changes (independent sub-agents) and what catches them\n\n" + text + "\n" + s[b:]
open(p, "w").write(s)
print(len(rows), "rows")
