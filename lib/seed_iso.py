#!/usr/bin/env python3
"""Run checks against a seeded change in isolation (for fast iteration while strengthening checks):
a scratch worktree of /repo with the patch applied + a copy of /verif whose harness depends on that
worktree.  /repo and /verif are not touched, so several can run side by side.
usage: seed_iso.py <name> <patch.diff> <check id> [<check id> ...]      (env TIER=quick|thorough)
prints one JSON line: {name, checks: {id: {exit, violations, first_why}}}"""
import json, os, shutil, subprocess, sys, time
VERIF = os.path.dirname(os.path.dirname(os.path.abspath(__file__)))
def sh(cmd, cwd=None, timeout=7200):
    r = subprocess.run(cmd, cwd=cwd, shell=True, stdout=subprocess.PIPE, stderr=subprocess.STDOUT, text=True, timeout=timeout)
    return r.returncode, r.stdout
name, patch, checks = sys.argv[1], sys.argv[2], sys.argv[3:]
tier = os.environ.get("TIER", "quick")
wt = "/tmp/mut/iso-%s-repo" % name
vf = "/tmp/mut/iso-%s-verif" % name
sh("git -C /repo worktree remove --force %s" % wt); shutil.rmtree(wt, ignore_errors=True); shutil.rmtree(vf, ignore_errors=True)
rc, out = sh("git -C /repo worktree add -q --detach %s HEAD" % wt); assert rc == 0, out
res = {"name": name, "checks": {}}
try:
    rc, out = sh("git apply %s" % patch, cwd=wt)
    if rc != 0:
        rc, out = sh("git apply --recount %s" % patch, cwd=wt)
    assert rc == 0, out
    rc, out = sh("rsync -a --exclude /out --exclude /.git --exclude /evidence --exclude /seeded %s/ %s/" % (VERIF, vf)); assert rc == 0, out
    os.makedirs(os.path.join(vf, "evidence"), exist_ok=True)
    ct = os.path.join(vf, "harness", "Cargo.toml")
    s = open(ct).read().replace('path = "/repo"', 'path = "%s"' % wt)
    open(ct, "w").write(s)
    for c in checks:
        t0 = time.time()
        rc, out = sh("./check %s --tier %s" % (c, tier), cwd=vf)
        viol = [l for l in out.splitlines() if l.startswith("VIOLATION")]
        why = [l.strip()[:400] for l in out.splitlines() if l.strip().startswith("why:")]
        res["checks"][c] = {"exit": rc, "violations": len(viol), "first_why": why[:2], "wall_s": round(time.time() - t0, 1),
                            "tail": (out.strip().splitlines() or [""])[-1][:300]}
finally:
    sh("git -C /repo worktree remove --force %s" % wt); shutil.rmtree(wt, ignore_errors=True)
    if os.environ.get("KEEP") != "1":
        shutil.rmtree(vf, ignore_errors=True)
print(json.dumps(res))
