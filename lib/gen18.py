"""C18 sessions: every statement kind executed many times in a loop without frames (GOTO loop),
in a FOR loop and in a subroutine, stopped by STOP so that the stack, the frames and the variable
slots are exposed to the probe; and programs that drive a pool past its limit."""
from ast import *

def templates():
    A, B, SV, TV, N, Iv, X1 = var("A"), var("B"), var("S$"), var("T$"), var("N%"), var("I"), arr("X", I(1))
    return [
        ("let", [let(A, bin_("add", A, I(1)))]),
        ("letstr", [let(SV, bin_("add", Str("AB"), Str("C")))]),
        ("letarr", [let(X1, bin_("mul", I(2), I(3)))]),
        ("zero", [let(A, I(5)), let(A, I(0)), let(SV, Str("X")), let(SV, Str("")), let(X1, I(1)), let(X1, I(0))]),
        # a zero that only the conversion to the variable's type produces (0.5 -> 0): no slot either
        ("zeroconv", [let(N, S(1, 1)), let(arr("K%", I(1)), I(1)), let(arr("K%", I(1)), bin_("div", arr("K%", I(1)), I(2))),
                      let(var("H%"), I(1)), let(var("H%"), bin_("div", var("H%"), I(4)))]),
        ("print", [pr(A, ";", Str("x"), ";", call("TAB", I(3)), ";")]),
        ("printnl", [pr(I(1), ",", I(2))]),
        ("if", [if_(bin_("lt", A, I(0)), [let(B, I(1))], [let(B, I(2))])]),
        ("ifnoelse", [if_(bin_("lt", A, I(0)), [let(B, I(1))])]),
        ("ifgoto", [if_(bin_("lt", A, I(0)), [goto(10)], short=True)]),
        ("for", [for_(Iv, I(1), I(2)), let(B, Iv), next_(Iv)]),
        ("fornoname", [for_(Iv, I(1), I(3), I(2)), next_()]),
        ("fornest", [for_(Iv, I(1), I(2)), for_(var("J"), I(1), I(2)), next_(var("J"), Iv)]),
        ("while", [let(var("W"), I(2)), while_(bin_("gt", var("W"), I(0))), let(var("W"), bin_("sub", var("W"), I(1))), wend()]),
        ("gosub", [gosub(900)]),
        ("subret", [gosub(920)]),          # a subroutine left from inside its own FOR loop
        ("subretw", [gosub(930)]),         # ... from inside its own WHILE loop
        ("ongosub1", [ongosub(I(1), 900, 910)]),
        ("ongosub2", [ongosub(I(2), 900, 910)]),
        ("ongosub0", [ongosub(I(0), 900, 910)]),
        ("ongosub3", [ongosub(I(3), 900, 910)]),
        ("ongoto0", [ongoto(I(0), 10)]),
        ("ongoto9", [ongoto(I(9), 10)]),
        ("read", [restore(), read(A, SV)]),
        ("restoren", [restore(950), read(B)]),
        ("dim", [dim(arr("Y", I(3))), let(arr("Y", I(2)), I(1)), erase(var("Y"))]),
        ("deffn", [def_("FNA", [var("P")], bin_("add", var("P"), I(1))), let(B, fn("FNA", I(2)))]),
        ("fnnest", [def_("FNA", [var("P")], bin_("add", var("P"), I(1))),
                    def_("FNB", [var("P"), var("Q")], bin_("mul", fn("FNA", var("P")), var("Q"))), let(B, fn("FNB", I(2), I(3)))]),
        ("swap", [swap(A, B)]),
        ("mid", [let(SV, Str("HELLO")), mid(SV, I(2), I(2), Str("xy"))]),
        ("strfn", [let(TV, bin_("add", call("LEFT$", Str("HELLO"), I(2)), call("MID$", Str("HELLO"), I(2), I(2)))),
                   let(N, call("INSTR", Str("HELLO"), Str("L")))]),
        ("numfn", [let(B, bin_("add", call("ABS", un("neg", I(3))), call("INT", S(5, 1))))]),
        ("tron", [tron(), troff()]),
        ("deftype", [deftype("I", "K", "L")]),
        ("rem", [rem("NOTE")]),
        ("data", [data(I(1), I(2))]),
        ("cmp", [let(N, bin_("and", par(bin_("lt", A, I(3))), par(bin_("eq", SV, Str("X")))))]),
        ("pos", [pr(pos(), ";")]),
    ]

def tail():
    return {900: [let(var("Z"), I(1)), ret()], 910: [ret()],
            920: [for_(var("SI"), I(1), I(3)), if_(bin_("eq", var("SI"), I(2)), [ret()])], 921: [next_(var("SI"))], 922: [ret()],
            930: [let(var("SW"), I(1)), while_(var("SW")), let(var("SW"), I(0)), ret()], 931: [wend()], 932: [ret()],
            950: [data(I(3), Str("D"))]}

def leak_sessions(n_iter, prefix="C18"):
    out = []
    for name, body in templates():
        for shape in ("goto", "for", "sub"):
            prog = {}
            Q = var("Q!")
            if shape == "goto":
                prog[10] = [let(Q, bin_("add", Q, I(1)))]
                prog[20] = body
                prog[30] = [if_(bin_("lt", Q, I(n_iter)), [goto(10)], short=True)]
                prog[40] = [stop()]
            elif shape == "for":
                prog[10] = [for_(Q, I(1), I(n_iter))]
                prog[20] = body
                prog[30] = [next_(Q)]
                prog[40] = [stop()]
            else:
                prog[10] = [for_(Q, I(1), I(n_iter)), gosub(800), next_(Q)]
                prog[40] = [stop()]
                prog[800] = body
                prog[810] = [ret()]
            prog[50] = [end()]
            for k, v in tail().items():
                prog[k] = v
            cmds = [line(n, *prog[n]) for n in sorted(prog)]
            cmds += [direct(run()), direct(pr(var("A"), ";", var("Q!"))), direct(cont())]
            out.append(session("%s-%s-%s-%d" % (prefix, name, shape, n_iter), cmds))
    return out

def limit_sessions(prefix="C18L"):
    """each pool driven past its limit; afterwards the session must still be usable"""
    after = [direct(pr(I(1))), direct(let(var("A"), I(2))), direct(pr(var("A")))]
    ss = []
    ss.append(session(prefix + "-gosub", [line(10, gosub(10)), direct(run())] + after, big=True))
    ss.append(session(prefix + "-for", [line(10, for_(var("I"), I(1), I(2)), goto(10)), direct(run())] + after, big=True))
    ss.append(session(prefix + "-fn", [line(10, def_("FNA", [var("X")], fn("FNA", var("X")))), line(20, pr(fn("FNA", I(1)))),
                                       direct(run())] + after, big=True))
    ss.append(session(prefix + "-ongosub", [line(10, ongosub(I(1), 10)), direct(run())] + after, big=True))
    return ss

def vars_limit_session(prefix="C18L"):
    after = [direct(pr(I(1)))]
    return session(prefix + "-vars", [
        line(10, dim(arr("A", I(260), I(260)))),
        line(20, for_(var("I"), I(0), I(260)), for_(var("J"), I(0), I(260)),
             let(arr("A", var("I"), var("J")), I(1)), next_(var("J"), var("I"))),
        direct(run())] + after, big=True)


def pool_session(prefix="C18P"):
    """the variable pool driven to its edge and across it, one assignment per command near the limit.
    returns (session, expected event kinds): the events say what each command is in terms of PoolLimit
    (bulk k: k assignments of a non-zero value to fresh variables; set x v; get x; clear)"""
    A_ = lambda i, j: arr("A", i, j)
    prog = [line(10, dim(A_(I(255), I(255)))),
            line(20, for_(var("I"), I(0), I(254)), for_(var("J"), I(0), I(255)), let(A_(var("I"), var("J")), I(1)),
                 next_(var("J"), var("I")))]
    fill = 255 * 256 + 2                     # the elements of 255 rows, I and J
    cmds, evs = list(prog), [None, None]
    def add(c, e):
        cmds.append(c); evs.append(e)
    def setv(x, v):
        add(direct(let(var(x), I(v))), {"ev": "set", "x": x, "v": v})
    def getv(x):
        add(direct(pr(var(x), ";")), {"ev": "get", "x": x})
    add(direct(run()), {"ev": "bulk", "k": fill})
    add(direct(for_(var("K"), I(0), I(250)), let(A_(I(255), var("K")), I(1)), next_()), {"ev": "bulk", "k": 252})
    setv("Z1", 5); setv("Z2", 5); setv("Z3", 5); getv("Z3"); setv("Z1", 0); getv("Z1"); setv("Z4", 7); getv("Z4"); getv("Z2")
    add(direct(clear()), {"ev": "clear"})
    getv("Z1"); setv("Z1", 7); getv("Z1"); setv("Z1", 0); getv("Z1")
    # a second time, crossing the limit inside one statement
    add(direct(run()), {"ev": "bulk", "k": fill})
    add(direct(for_(var("K"), I(0), I(255)), let(A_(I(255), var("K")), I(1)), next_()), {"ev": "bulk", "k": 257})
    setv("Z2", 5); getv("Z2"); setv("Z3", 0); getv("Z3")
    add(direct(clear()), {"ev": "clear"})
    setv("Z3", 5); getv("Z3")
    return session(prefix + "-pool", cmds, big=True, budget=3000000), evs
