"""Per-property check definitions.  Each check is a list of stages; a stage returns a StageResult.
The verdict, the KNOWN-FINDING / VIOLATION lines and the evidence file are produced here."""
import json, os, subprocess, sys, time
import common
from common import log, ToolError, SPEC


class Stage:
    def __init__(self):
        self.states = 0
        self.transitions = 0
        self.evaluations = 0
        self.validated = 0
        self.skipped = 0
        self.nontrivial = 0
        self.failures = []      # list of dict(case=..., why=..., observed=...)
        self.samples = []
        self.notes = {}
        self.exhaustive = False


def known_match(finding, case):
    """a finding matches a failing case if every (dotted path -> value) of its 'match' holds"""
    m = finding.get("match")
    if not m:
        return False
    for path, want in m.items():
        cur = case
        for part in path.split("."):
            if isinstance(cur, dict) and part in cur:
                cur = cur[part]
            elif isinstance(cur, list) and part.isdigit() and int(part) < len(cur):
                cur = cur[int(part)]
            else:
                cur = None
                break
        if isinstance(want, dict) and "in" in want:
            if cur not in want["in"]:
                return False
        elif cur != want:
            return False
    return True


def tlc_replay_stage(pid, module, cfg, timeout=900, workers=None, need_cases=True):
    """Model-check `module` under `cfg`; replay every REPLAY line it printed into the real code."""
    st = Stage()
    r = common.run_tlc(pid, module, os.path.join(SPEC, cfg), timeout=timeout, workers=workers)
    st.states = r["distinct"]
    st.transitions = r["generated"]
    st.notes[cfg] = {"tlc_wall_s": round(r["wall"], 1), "distinct": r["distinct"],
                     "generated": r["generated"], "replay_lines": r["ncases"]}
    if r["violated"]:
        # the specification itself violates its own invariant: the machinery is broken
        raise ToolError("TLC reports a property violation on the specification (%s): %s; see %s"
                        % (cfg, r["violated"], r["out"]))
    if not r["ok"]:
        raise ToolError("TLC failed on %s: %s; see %s" % (cfg, r["error"], r["out"]))
    if need_cases and r["ncases"] == 0:
        raise ToolError("TLC produced no REPLAY lines for %s" % cfg)
    if r["ncases"]:
        resp = r["cases"] + ".result.json"
        common.run_bvh(["replay", r["cases"], resp])
        res = json.load(open(resp))
        st.evaluations = res["total"]
        st.validated = res["ok"]
        st.skipped = res["skipped"]
        st.nontrivial = res.get("nontrivial", 0)
        st.failures = res["fails"]
        st.samples = res["samples"][:3]
        st.notes[cfg]["replayed_ok"] = res["ok"]
        st.notes[cfg]["out_of_model"] = res["skipped"]
        if res["failed"] > len(res["fails"]):
            st.notes[cfg]["failures_truncated"] = res["failed"]
    st.exhaustive = True
    return st


def finish(pid, tier, seed, level, stages, t0, rule, assumptions, nontrivial=None, extra=None):
    known = [f for f in common.load_known() if f.get("property") == pid and f.get("status") == "open"]
    violations = []
    known_hit = {}
    for st in stages:
        for f in st.failures:
            hit = None
            for k in known:
                if known_match(k, f["case"]):
                    hit = k
                    break
            if hit:
                known_hit.setdefault(hit["id"], (hit, 0))
                known_hit[hit["id"]] = (hit, known_hit[hit["id"]][1] + 1)
            else:
                violations.append(f)
    for kid, (k, n) in sorted(known_hit.items()):
        log("KNOWN-FINDING: property=%s %s [%s, %d case(s)]" % (pid, k["what"], kid, n))
    cov = {
        "states": sum(s.states for s in stages),
        "transitions": sum(s.transitions for s in stages),
        "traces_validated_against_impl": sum(s.validated for s in stages),
        "evaluations": sum(s.evaluations for s in stages),
        "out_of_model_skipped": sum(s.skipped for s in stages),
        "distinct_nontrivial": nontrivial if nontrivial is not None else sum(s.nontrivial for s in stages),
        "rule": rule,
        "samples": [x for s in stages for x in s.samples][:6] or [{"note": "no sample"}],
        "exhaustive": all(s.exhaustive for s in stages),
        "stages": {k: v for s in stages for k, v in s.notes.items()},
        "known_findings_reproduced": {k: n for k, (_, n) in known_hit.items()},
    }
    if extra:
        cov.update(extra)
    common.write_evidence(pid, tier, seed, level, cov, time.time() - t0, len(violations), assumptions)
    if violations:
        shown = 0
        for v in violations:
            p = common.save_replay(pid, common.case_id(v["case"]), v)
            if shown < 20:
                log("VIOLATION property=%s replay=%s" % (pid, p))
                log("   why: %s" % v.get("why"))
                shown += 1
        log("%d violation(s) for %s" % (len(violations), pid))
        return 1
    log("OK %s tier=%s states=%d replayed=%d skipped=%d wall=%.1fs" % (
        pid, tier, cov["states"], cov["traces_validated_against_impl"], cov["out_of_model_skipped"],
        time.time() - t0))
    return 0


# ------------------------------------------------------------------------------------------
def check_C08(tier, seed):
    t0 = time.time()
    cfg = "MC_C08_%s.cfg" % tier
    st = tlc_replay_stage("C08", "MC_C08.tla", cfg, timeout=1800)
    return finish("C08", tier, seed, "model_checking", [st], t0,
                  rule="TLC enumerates every case of the grid (unary: %s Integers x 7 forms; binary: 6 operators "
                       "x boundary grid^2; float->Integer: quarters around the limits x 8 contexts), checks the "
                       "arithmetic laws on the spec operators, and each case is replayed in the VM; all cases are "
                       "distinct by construction" % ("all 65536" if tier == "thorough" else "a boundary subset of"),
                  assumptions=["operands reach the VM through variables (A%=..., F#=...)",
                               "harness renderer and comparator are trusted"])


CHECKS = {"C08": check_C08}


def check(pid, tier, seed):
    if pid not in CHECKS:
        log("no check for", pid)
        return 2
    return CHECKS[pid](tier, seed)


def replay(pid, path):
    """re-run one saved failing case against the current tree"""
    obj = json.load(open(path))
    case = obj.get("case", obj)
    d = common.outdir(pid)
    tmp = os.path.join(d, "replay_one.ndjson")
    with open(tmp, "w") as f:
        f.write(json.dumps(case) + "\n")
    resp = tmp + ".result.json"
    common.run_bvh(["replay", tmp, resp])
    res = json.load(open(resp))
    if res["failed"]:
        log("VIOLATION property=%s replay=%s" % (pid, path))
        log("   why: %s" % res["fails"][0]["why"])
        log(json.dumps(res["fails"][0]["observed"]))
        return 1
    log("replay passes: %s" % path)
    return 0


def setup():
    common.build_harness()
    bad = 0
    for f in sorted(os.listdir(SPEC)):
        if f.endswith(".tla"):
            r = subprocess.run(["tla-sany", f], cwd=SPEC, stdout=subprocess.PIPE, stderr=subprocess.STDOUT, text=True)
            if r.returncode != 0 or "error" in r.stdout.lower().replace("errors: 0", ""):
                log("SANY failed for", f)
                log(r.stdout[-1500:])
                bad += 1
    return 2 if bad else 0
