"""Per-property check definitions.  Each check is a list of stages; a stage returns a StageResult.
The verdict, the KNOWN-FINDING / VIOLATION lines and the evidence file are produced here."""
import json, os, subprocess, sys, time
import common
from common import log, ToolError, SPEC


class Stage:
    def __init__(self):
        self.states = 0
        self.transitions = 0
        self.evaluations = 0
        self.validated = 0
        self.skipped = 0
        self.nontrivial = 0
        self.failures = []      # list of dict(case=..., why=..., observed=...)
        self.samples = []
        self.notes = {}
        self.exhaustive = False


def known_match(finding, case, failure=None):
    """a finding matches a failing case if every (dotted path -> value) of its 'match' holds;
    'match_cmd' is matched against the first statement of the command the trace was rejected at,
    'observed_codes' against the error codes the interpreter reported for it"""
    mc = finding.get("match_cmd")
    if mc is not None:
        fc = (failure or {}).get("failcmd") or {}
        st = (fc.get("stmts") or [{}])[0] if fc.get("k") == "direct" else fc
        if any(st.get(k) != v for k, v in mc.items()):
            return False
        oc = finding.get("observed_codes")
        if oc is not None:
            got = [e.get("code") for it in ((failure or {}).get("observed") or {}).get("resp", [])
                   if it.get("k") == "err" for e in it["errs"]]
            if got != oc:
                return False
        return True
    m = finding.get("match")
    if not m:
        return False
    for path, want in m.items():
        cur = case
        for part in path.split("."):
            if isinstance(cur, dict) and part in cur:
                cur = cur[part]
            elif isinstance(cur, list) and part.isdigit() and int(part) < len(cur):
                cur = cur[int(part)]
            else:
                cur = None
                break
        if isinstance(want, dict) and "in" in want:
            if cur not in want["in"]:
                return False
        elif cur != want:
            return False
    return True


def tlc_replay_stage(pid, module, cfg, timeout=900, workers=None, need_cases=True, env_extra=None):
    """Model-check `module` under `cfg`; replay every REPLAY line it printed into the real code."""
    st = Stage()
    r = common.run_tlc(pid, module, os.path.join(SPEC, cfg), timeout=timeout, workers=workers, env_extra=env_extra)
    st.states = r["distinct"]
    st.transitions = r["generated"]
    st.notes[cfg] = {"tlc_wall_s": round(r["wall"], 1), "distinct": r["distinct"],
                     "generated": r["generated"], "replay_lines": r["ncases"]}
    if r["violated"]:
        # the specification itself violates its own invariant: the machinery is broken
        raise ToolError("TLC reports a property violation on the specification (%s): %s; see %s"
                        % (cfg, r["violated"], r["out"]))
    if not r["ok"]:
        raise ToolError("TLC failed on %s: %s; see %s" % (cfg, r["error"], r["out"]))
    if need_cases and r["ncases"] == 0:
        raise ToolError("TLC produced no REPLAY lines for %s" % cfg)
    if r["ncases"]:
        resp = r["cases"] + ".result.json"
        common.run_bvh(["replay", r["cases"], resp])
        res = json.load(open(resp))
        st.evaluations = res["total"]
        st.validated = res["ok"]
        st.skipped = res["skipped"]
        st.nontrivial = res.get("nontrivial", 0)
        st.failures = res["fails"]
        st.samples = res["samples"][:3]
        st.notes[cfg]["replayed_ok"] = res["ok"]
        st.notes[cfg]["out_of_model"] = res["skipped"]
        if res["failed"] > len(res["fails"]):
            st.notes[cfg]["failures_truncated"] = res["failed"]
        if "diverged" in res:
            st.notes[cfg]["model_divergence"] = res["diverged"]
            st.notes[cfg]["model_divergence_samples"] = [
                {"src": d["observed"].get("src"), "why": d["why"]} for d in res.get("divergences", [])[:8]]
            with open(os.path.join(common.outdir(pid), cfg + ".divergences.json"), "w") as f:
                json.dump(res.get("divergences", []), f, indent=1)
    st.exhaustive = True
    return st


def tlc_sessions(pid, module, cfg, timeout=900, workers=None, keep=None):
    """Model-check `module` under `cfg` (the invariants of the specification are checked on every
    state) and collect the sessions it printed (R = "sess").  Returns (stage, sessions)."""
    st = Stage()
    r = common.run_tlc(pid, module, os.path.join(SPEC, cfg), timeout=timeout, workers=workers,
                       java_opts="-Xss1g" if module.startswith("MC_VM") else None)
    st.states = r["distinct"]
    st.transitions = r["generated"]
    st.notes[cfg] = {"tlc_wall_s": round(r["wall"], 1), "distinct": r["distinct"],
                     "generated": r["generated"], "sessions_emitted": r["ncases"]}
    if r["violated"]:
        raise ToolError("TLC reports a property violation on the specification (%s): %s; see %s"
                        % (cfg, r["violated"], r["out"]))
    if not r["ok"]:
        raise ToolError("TLC failed on %s: %s; see %s" % (cfg, r["error"], r["out"]))
    sessions = []
    tag = os.path.splitext(cfg)[0]
    with open(r["cases"]) as f:
        for i, line in enumerate(f):
            d = json.loads(line)
            if d.get("R") != "sess":
                continue
            if keep is not None and not keep(d):
                continue
            d["id"] = "%s-%d" % (tag, i)
            sessions.append(d)
    st.exhaustive = True
    return st, sessions


BATCH_WEIGHT = 6000


def validate_sessions(pid, name, sessions, chunk=None, timeout=1500, workers=None, exhaustive=False,
                      limit=65535):
    """Trace validation of a set of sessions; large sets are validated in batches (one drive + one TLC run each:
    a single trace file of hundreds of megabytes is beyond what TLC's JSON reader handles in reasonable time)."""
    def weight(s_):
        sw = s_.get("sweep")
        return min(int(sw.get("max", 60)), 120) if isinstance(sw, dict) else 1
    batches, cur, w = [], [], 0
    for s_ in sessions:
        cur.append(s_)
        w += weight(s_)
        if w >= BATCH_WEIGHT:
            batches.append(cur)
            cur, w = [], 0
    if cur:
        batches.append(cur)
    if len(batches) <= 1:
        return _validate_batch(pid, name, sessions, chunk, timeout, workers, exhaustive, limit)
    total = Stage()
    total.exhaustive = exhaustive
    agg = {"sessions": 0, "accepted": 0, "out_of_model": 0, "rejected": 0, "drive_wall_s": 0.0, "tlc_wall_s": 0.0,
           "trace_states": 0, "batches": len(batches), "negative_controls_rejected": 0}
    for bi, b in enumerate(batches):
        bn = "%s_b%d" % (name, bi)
        st = _validate_batch(pid, bn, b, chunk, timeout, workers, exhaustive, limit)
        total.states += st.states
        total.transitions += st.transitions
        total.evaluations += st.evaluations
        total.validated += st.validated
        total.skipped += st.skipped
        total.nontrivial += st.nontrivial
        total.failures.extend(st.failures)
        if not total.samples:
            total.samples = st.samples
        n_ = st.notes.get(bn, {})
        for k in agg:
            if k != "batches" and isinstance(n_.get(k), (int, float)):
                agg[k] = round(agg[k] + n_[k], 1) if isinstance(agg[k], float) else agg[k] + n_[k]
        if len(total.failures) > 400:
            break
    total.notes[name] = agg
    return total


def _validate_batch(pid, name, sessions, chunk=None, timeout=1500, workers=None, exhaustive=False,
                    limit=65535):
    """Drive the sessions through the real interpreter (bvh drive) and let TLC decide whether each
    recorded trace is a behaviour of the specification (TraceMachine)."""
    st = Stage()
    st.exhaustive = exhaustive
    if not sessions:
        raise ToolError("no sessions for stage %s" % name)
    d = common.outdir(pid)
    sp = os.path.join(d, name + ".sessions.ndjson")
    tp = os.path.join(d, name + ".trace.ndjson")
    with open(sp, "w") as f:
        for s in sessions:
            f.write(json.dumps(s) + "\n")
    t0 = time.time()
    common.run_bvh(["drive", sp, tp])
    t_drive = time.time() - t0
    # the harness may expand a session into several (interrupt sweeps): ids come from the trace
    ids = [json.loads(l)["id"] for l in open(tp)]
    n = len(ids)
    if n == 0:
        raise ToolError("no traces recorded for stage %s" % name)
    w = workers or common.TLC_WORKERS
    if chunk is None:
        chunk = max(1, min(40, n // (w * 4) + 1))
    cfgname = "TraceMachine.cfg"
    r = common.run_tlc(pid, "TraceMachine.tla", os.path.join(SPEC, cfgname), timeout=timeout, workers=w,
                       env_extra={"TRACE": tp, "CHUNK": str(chunk)}, java_opts="-Xss1g",
                       tag=name)
    if r["violated"]:
        raise ToolError("an invariant of the abstract machine failed during trace validation (%s): %s; see %s"
                        % (name, r["violated"], r["out"]))
    if not r["ok"]:
        raise ToolError("TLC failed validating %s: %s; see %s" % (name, r["error"], r["out"]))
    acc, stuck, skip = set(), {}, {}
    with open(r["cases"]) as f:
        for line in f:
            dct = json.loads(line)
            t = dct.get("T")
            if t == "ACCEPT":
                acc.add(dct["id"])
            elif t == "STUCK":
                old = stuck.get(dct["id"])
                if old is None or (dct["l"], dct.get("nint", 0)) > (old["l"], old.get("nint", 0)):
                    stuck[dct["id"]] = dct
            elif t == "SKIP":
                skip.setdefault(dct["id"], dct)
    traces = {}
    byid = {s["id"]: s for s in sessions}
    rejected = [i for i in ids if i not in acc and i not in skip]
    if rejected:
        with open(tp) as f:
            for line in f:
                rec = json.loads(line)
                if rec["id"] in rejected:
                    traces[rec["id"]] = rec
    for i in rejected:
        info = stuck.get(i)
        rec = traces.get(i, {})
        l = info["l"] if info else None
        cmdrec = rec.get("cmds", [])[l - 1] if info and l and l <= len(rec.get("cmds", [])) else None
        lines = [c.get("text") for c in rec.get("cmds", [])]
        why = "trace rejected by the specification"
        if info:
            why += " at command %d (%r): specified response %s, observed %s%s" % (
                l, cmdrec["text"] if cmdrec else "?", json.dumps(brief_resp(info.get("resp"))),
                json.dumps(brief_resp(cmdrec["resp"])) if cmdrec else "?",
                "" if not info.get("respok") else "; responses agree, the state probe differs")
        else:
            why += " (no behaviour of the specification reaches the end of the trace)"
        st.failures.append({"case": rec.get("case") or byid.get(i) or byid.get(i.split("#")[0]), "why": why, "lines": lines,
                            "failcmd": cmdrec["cmd"] if cmdrec else None,
                            "observed": cmdrec, "spec": info})
    st.evaluations = n
    st.validated = len(acc)
    st.skipped = len([i for i in skip if i not in acc])
    st.states = r["distinct"]
    st.transitions = r["generated"]
    st.notes[name] = {"sessions": n, "accepted": len(acc), "out_of_model": st.skipped,
                      "rejected": len(rejected), "drive_wall_s": round(t_drive, 1),
                      "tlc_wall_s": round(r["wall"], 1), "trace_states": r["distinct"], "chunk": chunk}
    if len(acc) and os.environ.get("VERIF_NEG", "1") == "1" and name != "replay":
        st.notes[name]["negative_controls_rejected"] = negative_controls(pid, name, tp, acc, "sessions")
    if len(acc):
        want = next(i for i in ids if i in acc)
        with open(tp) as f:
            for line in f:
                rec = json.loads(line)
                if rec["id"] == want:
                    st.samples.append({"session": rec["id"], "verdict": "accepted by the specification",
                                       "commands": [{"entered": c["text"], "interrupt_after_opcodes": c["cmd"].get("int_after"),
                                                     "response": brief_resp(c["resp"])} for c in rec["cmds"]][:14]})
                    break
    return st


def negative_controls(pid, name, tp, accepted_ids, kind, limit=12):
    """the binding binds: corrupt recorded traces that were accepted and require that every corrupted
    trace is rejected.  Returns the number of corrupted traces rejected."""
    import copy
    recs = []
    with open(tp) as f:
        for line in f:
            rec = json.loads(line)
            if rec["id"] in accepted_ids:
                recs.append(rec)
            if len(recs) >= limit:
                break
    bad = []
    for i, rec in enumerate(recs):
        r2 = copy.deepcopy(rec)
        r2["id"] = "neg-%d-%s" % (i, rec["id"])
        if kind == "sessions":
            cmds = [c for c in r2["cmds"] if any(it.get("k") == "out" for it in c["resp"])]
            if i % 3 == 0 and cmds:
                it = next(it for it in cmds[-1]["resp"] if it.get("k") == "out")
                it["s"] = it["s"][:-1] + [it["s"][-1] + 1] if i % 2 else [63] + it["s"]     # a printed character
            elif i % 3 == 1:
                r2["cmds"][-1]["probe"]["vars"].append({"l": "Z", "id": "ZZ", "sfx": "%", "sub": [],
                                                         "v": {"t": "I", "n": 77, "e": 0, "s": [], "x": True}})   # a stray variable
            else:
                withresp = [c for c in r2["cmds"] if c["resp"]]
                if not withresp:
                    continue
                withresp[0]["resp"] = []                                             # a lost response
        else:
            evs = r2["ev"]
            ex = [j for j, e in enumerate(evs) if e["call"] == "execute" and e["ret"] != "Inkey"]
            en = [j for j, e in enumerate(evs) if e["call"] == "enter" and e["cls"] == "direct"]
            if i % 2 == 0 and ex:
                evs[ex[len(ex) // 2]]["post"]["state"] = "Inkey"                     # an impossible state
            elif en:
                del evs[en[0]]                                                        # a lost call
            else:
                continue
        bad.append(r2)
    if not bad:
        return 0
    d = common.outdir(pid)
    np_ = os.path.join(d, name + ".neg.ndjson")
    with open(np_, "w") as f:
        for r2 in bad:
            f.write(json.dumps(r2) + "\n")
    module, cfg = ("TraceMachine.tla", "TraceMachine.cfg") if kind == "sessions" else ("TraceShell.tla", "TraceShell.cfg")
    r = common.run_tlc(pid, module, os.path.join(SPEC, cfg), timeout=900, workers=4,
                       env_extra={"TRACE": np_, "CHUNK": "1"}, java_opts="-Xss1g", tag=name + "_neg")
    if not r["ok"]:
        raise ToolError("TLC failed on the negative controls of %s: %s" % (name, r["error"] or r["violated"]))
    acc = set()
    with open(r["cases"]) as f:
        for line in f:
            dct = json.loads(line)
            if dct.get("T") == "ACCEPT":
                acc.add(dct["id"])
    if acc:
        raise ToolError("negative control failed: corrupted traces were accepted by the specification: %s (see %s)"
                        % (sorted(acc)[:3], np_))
    return len(bad)


def brief_resp(resp):
    out = []
    for it in resp or []:
        if it.get("k") == "out":
            out.append("".join(chr(c) for c in it["s"]))
        elif it.get("k") == "err":
            out.append({"err": [[e.get("code"), e.get("ln", e.get("line"))] for e in it["errs"]]})
        elif it.get("k") == "input":
            out.append({"input": "".join(chr(c) for c in it["s"])})
        elif it.get("k") == "list":
            out.append({"list": it.get("ln"), "text": it.get("text") if isinstance(it.get("text"), str)
                        else "".join(chr(c) for c in it.get("text", []))})
        else:
            out.append(it.get("k"))
    return out


def render_cmd(c):
    """a short human-readable form of a command (for samples in evidence only)"""
    return {k: v for k, v in c.items() if k in ("k", "n", "int_after")} | (
        {"stmts": [s.get("k") for s in c.get("stmts", [])]} if "stmts" in c else {})


def finish(pid, tier, seed, level, stages, t0, rule, assumptions, nontrivial=None, extra=None):
    import shutil
    shutil.rmtree(os.path.join(common.outdir(pid), "replay"), ignore_errors=True)
    known = [f for f in common.load_known() if f.get("property") == pid and f.get("status") == "open"]
    violations = []
    known_hit = {}
    for st in stages:
        for f in st.failures:
            hit = None
            for k in known:
                if known_match(k, f["case"], f):
                    hit = k
                    break
            if hit:
                known_hit.setdefault(hit["id"], (hit, 0))
                known_hit[hit["id"]] = (hit, known_hit[hit["id"]][1] + 1)
            else:
                violations.append(f)
    for kid, (k, n) in sorted(known_hit.items()):
        log("KNOWN-FINDING: property=%s %s [%s, %d case(s)]" % (pid, k["what"], kid, n))
    cov = {
        "states": sum(s.states for s in stages),
        "transitions": sum(s.transitions for s in stages),
        "traces_validated_against_impl": sum(s.validated for s in stages),
        "evaluations": sum(s.evaluations for s in stages),
        "out_of_model_skipped": sum(s.skipped for s in stages),
        "distinct_nontrivial": nontrivial if nontrivial is not None else sum(s.nontrivial for s in stages),
        "rule": rule,
        "samples": [x for s in stages for x in s.samples][:6] or [{"note": "no sample"}],
        "exhaustive": all(s.exhaustive for s in stages),
        "stages": {k: v for s in stages for k, v in s.notes.items()},
        "known_findings_reproduced": {k: n for k, (_, n) in known_hit.items()},
    }
    if extra:
        cov.update(extra)
    common.write_evidence(pid, tier, seed, level, cov, time.time() - t0, len(violations), assumptions)
    if violations:
        shown = 0
        for v in violations:
            p = common.save_replay(pid, common.case_id(v["case"]), v)
            if shown < 20:
                log("VIOLATION property=%s replay=%s" % (pid, p))
                log("   why: %s" % v.get("why"))
                shown += 1
        log("%d violation(s) for %s" % (len(violations), pid))
        return 1
    log("OK %s tier=%s states=%d replayed=%d skipped=%d wall=%.1fs" % (
        pid, tier, cov["states"], cov["traces_validated_against_impl"], cov["out_of_model_skipped"],
        time.time() - t0))
    return 0


# ------------------------------------------------------------------------------------------
def check_C08(tier, seed):
    t0 = time.time()
    cfg = "MC_C08_%s.cfg" % tier
    st = tlc_replay_stage("C08", "MC_C08.tla", cfg, timeout=1800)
    return finish("C08", tier, seed, "model_checking", [st], t0,
                  rule="TLC enumerates every case of the grid (unary: %s Integers x 7 forms; binary: 6 operators "
                       "x boundary grid^2; float->Integer: quarters around the limits x 8 contexts), checks the "
                       "arithmetic laws on the spec operators, and each case is replayed in the VM; all cases are "
                       "distinct by construction" % ("all 65536" if tier == "thorough" else "a boundary subset of"),
                  assumptions=["operands reach the VM through variables (A%=..., F#=...)",
                               "harness renderer and comparator are trusted"])


def gen_sessions(seed, n, prefix, err_rate=None, layout=True, **kw):
    import gen
    out = []
    for i in range(n):
        g = gen.Gen(seed * 100003 + i, **kw)
        g.layout = layout
        if err_rate is not None:
            g.err_rate = err_rate
        out.append(g.session("%s-%d-%d" % (prefix, seed, i)))
    return out


ASSUME_SESS = ["the harness renderer (AST -> source text) and the probe projection are trusted",
               "floating-point content is specified only on short dyadic rationals; sessions that leave "
               "that domain are discarded (counted as out_of_model), never failed"]


# ---- binding of BasicVM (the implementation-level model) to the code -------------------------------------------
_CALLNAME = {"HEX$": "HEX", "OCT$": "OCT", "STR$": "STR", "STRING$": "STRING", "INKEY$": "INKEY"}
_DEFT = {"I": "DEFINT", "S": "DEFSNG", "D": "DEFDBL", "$": "DEFSTR"}
_LITRE = None


def _rust_debug_upper(cps):
    """what Opcode::Display shows for a string literal ({:?} then to_ascii_uppercase); None: not predictable here"""
    out = []
    for c in cps:
        if c == 10:
            out.append("\\N")
        elif c == 34:
            out.append('\\"')
        elif c == 92:
            out.append("\\\\")
        elif 32 <= c < 127:
            out.append(chr(c).upper())
        else:
            return None
    return '"' + "".join(out) + '"'


def _model_op(op):
    from fractions import Fraction
    o, a = op["o"], op["a"]
    name = lambda nm: nm["id"] + nm["sfx"]
    if o == "LIT":
        t = a["t"]
        if t == "I":
            return ("LIT", "INTEGER", a["n"])
        if t in ("S", "D"):
            return ("LIT", "SINGLE" if t == "S" else "DOUBLE", Fraction(a["n"], 2 ** a["e"]) if a["x"] else None)
        if t == "$":
            return ("LIT", "STRING", _rust_debug_upper(a["s"]))
        if t == "nm":
            return ("LIT", "STRING", '"' + name(a["s"]).upper() + '"')
        if t == "R":
            return ("LIT", "RETURN", a["n"])
        if t == "N":
            return ("LIT", "NEXT", a["n"])
    if o in ("PUSH", "POP", "PUSHARR", "POPARR", "DIMARR", "ERASEARR", "NEXT", "INPUT"):
        return (o, name(a))
    if o in ("DEF", "FN"):
        return (o, a)
    if o in ("IFNOT", "JUMP", "RESTORE"):
        return (o, str(a))
    if o == "DEFTYPE":
        return (_DEFT[a],)
    if o == "CALL":
        return (_CALLNAME.get(a, a),)
    return (o,)


def _real_op(text):
    import re
    from fractions import Fraction
    m = re.match(r"^([A-Z$]+)(?:\((.*)\))?$", text, re.S)
    if not m:
        return ("?", text)
    nm, arg = m.group(1), m.group(2)
    if arg is None:
        return (nm,)
    if nm == "PUSH":
        lm = re.match(r"^(INTEGER|SINGLE|DOUBLE|STRING|RETURN|NEXT)\((.*)\)$", arg, re.S)
        if lm:
            ty, body = lm.group(1), lm.group(2)
            if ty in ("INTEGER", "RETURN", "NEXT"):
                return ("LIT", ty, int(body))
            if ty in ("SINGLE", "DOUBLE"):
                try:
                    return ("LIT", ty, Fraction(float(body)))
                except (ValueError, OverflowError):
                    return ("LIT", ty, None)
            return ("LIT", ty, body)
    return (nm, arg)


def _ops_equal(a, b):
    if a[0] != b[0] or len(a) != len(b):
        return False
    if a[0] == "LIT":
        return a[1] == b[1] and (a[2] is None or b[2] is None or a[2] == b[2])
    return a == b


def code_stage(pid, name, sessions, max_steps=300, timeout=3000):
    """see _code_stage; this stage only binds the auxiliary model BasicVM to the code and reports drift: whatever
    happens in it (a time-out, a session the model cannot evaluate) is a note in the evidence, never a failure or
    a tool error of the property's check"""
    try:
        return _code_stage(pid, name, sessions, max_steps, timeout)
    except Exception as e:           # noqa: BLE001
        st = Stage()
        st.notes[name] = {"sessions": len(sessions), "not_evaluated": str(e)[:400]}
        print("NOTE %s/%s: the implementation-level model (BasicVM) could not be compared with the code here: %s"
              % (pid, name, str(e)[:200]))
        return st


def _code_stage(pid, name, sessions, max_steps=300, timeout=3000):
    """BasicVM against the code, whole sessions: every command of a session is delivered to the real interpreter and
    executed one execute(1) at a time (interrupts after the session's `int_after` opcodes).  For every direct command
    the opcodes the interpreter's compiler and linker emitted must be the opcodes BasicVM!Compile gives for the
    commands as the interpreter's parser understood them; for every command (pc, stack depth, run state, print column, DATA pointer, number of stored variables) after every
    single execute(1) must be the model's.  A difference is not a violation of any property (another compilation
    scheme may be just as right): it is reported as drift of the implementation-level model, which then no longer
    transfers what TLC proved about it."""
    st = Stage()
    d = common.outdir(pid)
    sp = os.path.join(d, name + ".code.sessions.ndjson")
    with open(sp, "w") as f:
        for s_ in sessions:
            f.write(json.dumps(s_) + "\n")
    cp = os.path.join(d, name + ".code.ndjson")
    t0 = time.time()
    common.run_bvh(["code", sp, cp, str(max_steps)], timeout=900)
    twall = time.time() - t0
    real = {}
    for line in open(cp):
        r_ = json.loads(line)
        real[r_["id"]] = r_
    usable = [r_ for r_ in real.values() if r_.get("ok")]
    notes = {"sessions": len(sessions), "with_a_direct_command": len(usable), "drive_wall_s": round(twall, 1)}
    if not usable:
        st.notes[name] = notes
        return st
    r = common.run_tlc(pid, "MC_Code.tla", os.path.join(SPEC, "MC_Code.cfg"), timeout=timeout, env_extra={"CODE": cp},
                       java_opts="-Xss1g", tag=name)
    if not r["ok"]:
        raise ToolError("TLC failed walking %s on the model: %s; see %s" % (name, r["error"] or r["violated"], r["out"]))
    compared = ncmds = ndirect = witherrs = outside = ndrift = nops = nsteps = nints = partial_n = 0
    drift = []
    for line in open(r["cases"]):
        mrec = json.loads(line)
        if mrec.get("R") != "code":
            continue
        rrec = real[mrec["id"]]
        compared += 1
        diff = None
        for j, it in enumerate(mrec["items"]):
            rc = rrec["cmds"][j]
            if it["k"] == "outside":
                outside += 1
                break
            ncmds += 1
            if it["k"] == "direct":
                ndirect += 1
                if it["errs"]:
                    # with compile-time errors nothing runs and the layout of the rejected unit is immaterial
                    witherrs += 1
                else:
                    mops = [_model_op(o) for o in it["ops"]]
                    rops = [_real_op(t) for t in rc["ops"]]
                    if len(mops) != len(rops):
                        diff = "command %d: code length %d (model) / %d (interpreter)" % (j + 1, len(mops), len(rops))
                    else:
                        for i_, (x, y) in enumerate(zip(mops, rops)):
                            if not _ops_equal(x, y):
                                diff = "command %d, address %d: model %s, interpreter %s" % (j + 1, i_, x, rc["ops"][i_])
                                break
                    if diff is None and it["daddr"] != rc["daddr"]:
                        diff = "command %d: direct code starts at %s (model) / %s (interpreter)" % (j + 1, it["daddr"], rc["daddr"])
                    if diff is None and it["ndata"] != len(rc["data"]):
                        diff = "command %d: DATA values %d (model) / %d (interpreter)" % (j + 1, it["ndata"], len(rc["data"]))
                    if diff is None:
                        nops += len(mops)
            if diff is None and not (it["k"] == "direct" and it["errs"] and False):
                mv = [list(x) for x in it["vm"]]
                rv = rc["vm"]
                # the model stops where it leaves its domain (a value it does not compute): compare up to there
                cut = next((q for q, x in enumerate(mv) if x[2] == "oom"), None)
                if cut is not None:
                    mv = mv[:cut]
                k = min(len(mv), len(rv))
                bad = next((q for q in range(k) if mv[q] != rv[q]), None)
                if bad is None and cut is None and len(mv) != len(rv):
                    bad = k
                if bad is not None:
                    diff = "command %d, step %d: model %s, interpreter %s" % (
                        j + 1, bad + 1, mv[bad] if bad < len(mv) else "-", rv[bad] if bad < len(rv) else "-")
                else:
                    nsteps += k
                    if rc.get("intat", -1) >= 0:
                        nints += 1
                if cut is not None:
                    partial_n += 1
                    break
            if diff is not None:
                break
        if diff is not None:
            ndrift += 1
            if len(drift) < 10:
                drift.append({"session": mrec["id"], "difference": diff})
    notes.update({"sessions_compared": compared, "commands_compared": ncmds, "direct_commands_(code_compared)": ndirect,
                  "rejected_at_compile_time_(code_not_compared)": witherrs, "sessions_leaving_the_compiler_model": outside,
                  "sessions_leaving_the_value_model": partial_n, "opcodes_compared": nops, "execute_steps_compared": nsteps,
                  "interrupts_delivered": nints, "tlc_wall_s": round(r["wall"], 1), "sessions_with_drift": ndrift,
                  "drift": drift})
    st.notes[name] = notes
    st.evaluations = compared
    st.validated = compared - ndrift
    st.transitions = nsteps
    if drift:
        print("NOTE %s/%s: the implementation-level model (BasicVM) differs from the code in %d of %d sessions (not a "
              "violation; first: %s)" % (pid, name, ndrift, compared, drift[0]["difference"]))
    return st


def check_C01(tier, seed):
    t0 = time.time()
    quick = tier == "quick"
    st1, sess = tlc_sessions("C01", "MC_C01.tla", "MC_C01_%s.cfg" % tier, timeout=3000,
                             keep=lambda d: not d.get("oom"))
    st2 = validate_sessions("C01", "mc", sess, exhaustive=True, timeout=3000)
    rnd = gen_sessions(seed, 150 if quick else 2500, "C01r")
    st3 = validate_sessions("C01", "rnd", rnd, timeout=3000)
    # the repository's own tests and the manual's examples, as text: the interpreter's parser translates each
    # line into the specification's AST, the abstract machine must reproduce every response
    import gentext
    text = gentext.test_sessions() + gentext.doc_sessions()
    st4 = validate_sessions("C01", "textual", text, timeout=3000)
    # the implementation-level model: refinement checked by TLC, bound to the code opcode by opcode
    st5 = tlc_mc("C01", "MC_VM.tla", "MC_VM_%s.cfg" % tier, timeout=3000)
    st6 = code_stage("C01", "vm-mc", sample(sess, 2500 if quick else 12000))
    st7 = code_stage("C01", "vm-rnd", rnd)
    st8 = code_stage("C01", "vm-text", text)
    return finish("C01", tier, seed, "model_checking", [st1, st2, st3, st4, st5, st6, st7, st8], t0,
                  rule="every program of the bounded template grammar (one template per line) is run on the "
                       "abstract machine by TLC with its invariants checked at every step; each terminating "
                       "behaviour and each seeded random program (5-30 lines: loops left early, subroutines, "
                       "nested IF, ON, WHILE, TRON) is executed by the real interpreter and the recorded trace "
                       "(responses + state probe after every command) must be a behaviour of the specification; in addition "
                       "the lines entered by the repository's own tests and the examples of the manual (src/doc) are replayed "
                       "as text sessions (the interpreter's parser supplies the AST) and validated the same way."
                       + VM_RULE % "every program of the same template grammar (each run also continued after STOP / END)",
                  assumptions=ASSUME_SESS)


VM_RULE = (" Implementation level: TLC checks that BasicVM (the code generator, the linker with its symbol table, program "
           "memory and the stack machine with its run states, transcribed from the source) refines the abstract machine on "
           "%s -- the same responses and the same observable state at every prompt, only FOR / GOSUB frames on the stack "
           "where a line starts, every linked branch inside the code; and the harness checks that the opcodes the "
           "interpreter compiles and its (pc, stack depth, run state, print column, DATA pointer, number of stored variables) after every single execute(1) are BasicVM's for the "
           "sessions of this check (a difference is reported as drift of that model, never as a violation).")


VM_CODE_RULE = (" Implementation level: the sessions of this check are also walked through BasicVM (the code generator, linker, "
                "program memory and stack machine transcribed from the source; its refinement of the abstract machine is "
                "model-checked in C01, C04, C09-C13, C17, C18, C20): the opcodes the interpreter compiles for every direct "
                "command and its (pc, stack depth, run state, print column, DATA pointer, number of stored variables) after every single execute(1) of every command must be BasicVM's "
                "(a difference is reported as drift of that model, never as a violation).")


def sample(sess, n):
    step = max(1, len(sess) // n)
    return sess[::step]


def mc_sess_check(pid, tier, seed, module, rule, extra_sessions=None, keep=None, timeout=3000, chunk=None,
                  assumptions=None, cfg=None, pre_stages=None, vm_cfgs=None, vm_space=None):
    t0 = time.time()
    st1, sess = tlc_sessions(pid, module, cfg or "%s_%s.cfg" % (os.path.splitext(module)[0], tier),
                             timeout=timeout, keep=keep)
    stages = (pre_stages or []) + [st1, validate_sessions(pid, "mc", sess, exhaustive=True, timeout=timeout, chunk=chunk)]
    if extra_sessions:
        for name, ss in extra_sessions:
            stages.append(validate_sessions(pid, name, ss, timeout=timeout))
    if vm_cfgs is not None:
        for vmod, vcfg in vm_cfgs:
            stages.append(tlc_mc(pid, vmod, vcfg, timeout=timeout))
        stages.append(code_stage(pid, "vm", sample(sess, 1500 if tier == "quick" else 6000), timeout=timeout))
        rule = rule + (VM_RULE % (vm_space or "the program space of this check") if vm_cfgs else VM_CODE_RULE)
    return finish(pid, tier, seed, "model_checking", stages, t0, rule=rule,
                  assumptions=ASSUME_SESS + (assumptions or []))


def check_C04(tier, seed):
    return mc_sess_check("C04", tier, seed, "MC_C04.tla",
        rule="TLC explores the state graph of the abstract machine (which has no compile cache) under edit "
             "histories: a run stopped by STOP / END / an error inside a FOR inside a GOSUB, then insert, replace, "
             "delete, bare number of an absent line, DELETE hit and miss, NEW, direct statements, intermediate RUN, "
             "ending in RUN, RUN n, CONT, RETURN, NEXT, GOTO n; EditCancels and OnlyEditsEdit are checked as action "
             "properties; every transition is a session executed by the real interpreter and validated",
        vm_cfgs=[("MC_VM4.tla", "MC_VM4_%s.cfg" % tier)],
        vm_space="the same edit histories without RENUM (GRefines; CacheCoherent: the compiled program is that of the "
                 "listing unless the dirty flag is set)")


def check_C06(tier, seed):
    return mc_sess_check("C06", tier, seed, "MC_C06.tla",
        rule="TLC explores the state graph of the abstract store (a function from names to values) under a menu of "
             "direct statements over confusable names (A, A!, A%, A#, A$, AB, A1, FA, A(..), A(..,..), AB(..), A%(..), "
             "A$(..)): assignments of each value type, boundary subscripts (0, 10, 11, -1, 2.5, wrong arity), DIM / "
             "ERASE, DEFINT/SNG/DBL/STR, SWAP of same and mixed types, CLEAR; VarsTyped, InBounds, SwapAtomic are "
             "checked on the specification; every transition is a session after each command of which the whole "
             "variable store of the interpreter (probe) must equal the specified one",
        vm_cfgs=[("MC_VMM06.tla", "MC_VMM06_%s.cfg" % tier)], vm_space="the same menu of direct statements")


RULES = {
 "C09": "every program of N lines over the DATA templates (DATA before / between / after the code that reads it, numbers, "
        "negative numbers, strings; READ of one and several variables incl. a type clash; RESTORE, RESTORE n for a DATA "
        "line, a non-DATA line and the line after; a loop reading to OUT OF DATA; CLEAR) is run, then READ in direct "
        "mode, then a DATA line is inserted and the program run again; the data pointer (probe) and every response "
        "must equal the specified ones",
 "C10": "every program of N lines over the user-function templates (DEF with 1-2 parameters incl. an Integer "
        "parameter, a function calling a function to depth 3, redefinition, runaway recursion, calls in PRINT lists, "
        "FOR bodies, subscripts, IF predicates and a subroutine; wrong arity, undefined function, DEF in direct mode) "
        "with same-named globals X, Y set before and inspected after",
 "C11": "every two-line program (line 1: one print item of every kind with each separator; line 2: print lists of 1-2 "
        "items x separators x trailing separator, an INPUT, a runtime error) followed by a direct PRINT using POS and a "
        "zone; items: strings of 0/2/14/15 characters, a non-ASCII and a multi-line string, Integers, Singles, Doubles, "
        "TAB(+/-/0), SPC, POS; number formatting: Single and Double values n/2^e over a grid of mantissas and exponents are "
        "printed by the interpreter and checked for shape (sign slot, trailing blank), for the specified text where the "
        "decimal expansion is short, for reading back to the same value of the type and for minimality of the digit count",
 "C17": "every INPUT form (no prompt / prompt / leading comma; 1-3 variables of each type; an array element whose "
        "subscript is an earlier variable of the list), inside a subroutine inside a FOR, x every reply string over "
        "the reply alphabet up to the bound plus hand-picked replies; rejected replies are followed by a fixed reply",
}


def prog_check(pid):
    def chk(tier, seed):
        pre = None
        if pid == "C11":
            # number formatting: values chosen by TLC, printed by the interpreter (shape, text, read-back, minimality)
            pre = [tlc_replay_stage("C11", "MC_C11F.tla", "MC_C11F_%s.cfg" % tier, timeout=3000)]
        return mc_sess_check(pid, tier, seed, "MC_Prog.tla", RULES[pid], cfg="MC_Prog_%s_%s.cfg" % (pid, tier),
                             keep=lambda d: not d.get("oom"), pre_stages=pre,
                             vm_cfgs=[("MC_VMP.tla", "MC_VMP_%s_%s.cfg" % (pid, tier))],
                             vm_space="the same program space (both machines fed the same commands, compared after each)")
    return chk


def check_C12(tier, seed):
    return mc_sess_check("C12", tier, seed, "MC_C12.tla",
        rule="TLC explores the state graph of the abstract machine under session prefixes that dirty every component "
             "of the program state (variables, arrays, DEFtype, user functions, frames left by STOP / an error / an "
             "abandoned direct FOR / a direct GOSUB, the DATA pointer, the continuation; NEW followed by re-entry of "
             "a program that observes leaked state) and checks RunIsFresh, ClearIsInit, NewIsEmpty as action "
             "properties; every transition is a session whose whole probe is compared after each command",
        vm_cfgs=[("MC_VM12.tla", "MC_VM12_%s.cfg" % tier)], vm_space="the same session prefixes")


def tlc_mc(pid, module, cfg, timeout=1800, workers=None):
    """a pure model-checking stage (properties of the specification itself)"""
    st = Stage()
    r = common.run_tlc(pid, module, os.path.join(SPEC, cfg), timeout=timeout, workers=workers,
                       java_opts="-Xss1g" if module.startswith("MC_VM") else None)
    st.states = r["distinct"]
    st.transitions = r["generated"]
    st.notes[cfg] = {"tlc_wall_s": round(r["wall"], 1), "distinct": r["distinct"], "generated": r["generated"]}
    if r["violated"]:
        raise ToolError("TLC reports a property violation on the specification (%s): %s; see %s"
                        % (cfg, r["violated"], r["out"]))
    if not r["ok"]:
        raise ToolError("TLC failed on %s: %s; see %s" % (cfg, r["error"], r["out"]))
    st.exhaustive = True
    return st


def check_C13(tier, seed):
    import ast as A
    t0 = time.time()
    quick = tier == "quick"
    st0 = tlc_mc("C13", "MC_C13.tla", "MC_C13_%s.cfg" % tier, timeout=3000)
    # slicing at the level of the implementation model: an interrupt at every opcode boundary of every program of the
    # space, then CONT: same final store, frames, continuability as the uninterrupted manual-level run
    stv = tlc_mc("C13", "MC_VM.tla", "MC_VM_intr_%s.cfg" % tier, timeout=7000)
    st1, sess = tlc_sessions("C13", "MC_C01.tla", "MC_C01_quick.cfg", timeout=3000,
                             keep=lambda d: not d.get("oom"))
    stride = 40 if quick else 4
    pick = sess[seed % stride::stride]
    sweeps = []
    for i, s_ in enumerate(pick):
        d = dict(s_)
        run_idx = next(j for j, c in enumerate(d["cmds"]) if c["k"] == "direct")
        d["sweep"] = {"cmd": run_idx, "max": 60 if quick else 400,
                      "inspect": A.direct(A.pr(A.var("A"), ";")) if i % 2 == 0 else None}
        sweeps.append(d)
    st2 = validate_sessions("C13", "sweep", sweeps, timeout=3000, exhaustive=True)
    # the same sweeps walked through BasicVM: the interrupt is delivered after exactly the same number of opcodes
    # and (pc, stack depth, run state, print column, DATA pointer, number of stored variables) must agree after every execute(1), through BREAK, the inspection and CONT
    stc = code_stage("C13", "vm-sweep", sweeps[:: (1 if quick else 3)], max_steps=400)
    # seeded random programs: every interruption point (bounded), with inspection
    rnd = gen_sessions(seed, 25 if quick else 300, "C13r", err_rate=0.0, layout=False)
    rs = []
    for i, s_ in enumerate(rnd):
        d = dict(s_)
        run_idx = next(j for j, c in enumerate(d["cmds"]) if c["k"] == "direct")
        d["sweep"] = {"cmd": run_idx, "max": 40 if quick else 300,
                      "inspect": A.direct(A.pr(A.var("N%"), ";", A.var("M%"), ";")) if i % 2 == 0 else None}
        rs.append(d)
    st3 = validate_sessions("C13", "rndsweep", rs, timeout=3000)
    # interrupts at an INPUT prompt, while the fields of a reply are being assigned, and in the middle of a LIST
    B, S_, N = A.var("A"), A.var("B$"), A.var("N%")
    p1 = [A.line(10, A.for_(A.var("I"), A.I(1), A.I(2)), A.input_([B, S_], prompt="Q"), A.pr(B, ";", S_, ";"), A.next_()),
          A.line(20, A.pr(A.Str("E")))]
    p2 = [A.line(10, A.input_([N]), A.input_([A.var("A$")], caps=False)), A.line(20, A.pr(N, ";", A.var("A$")))]
    p3 = [A.line(10, A.pr(A.Str("L")), A.list_(), A.pr(A.Str("M"))), A.line(20, A.rem("x")), A.line(30, A.let(B, A.I(1))), A.line(40, A.end())]
    ii = []
    run_ = A.direct(A.run())
    cont_ = A.direct(A.cont())
    ii.append(A.session("C13i-prompt1", p1 + [run_, A.interrupt(), cont_, A.reply("1,X"), A.interrupt(), A.direct(A.pr(B, ";")), cont_, A.reply("2,Y")]))
    ii.append(A.session("C13i-prompt2", p2 + [run_, A.reply("5"), A.interrupt(), cont_, A.reply("zz")]))
    ii.append(A.session("C13i-redo", p1 + [run_, A.reply("1"), A.interrupt(), cont_, A.reply("x,1"), A.reply("3,Z"), A.reply("4,W")]))
    for idx, (nm, prog, tail) in enumerate([("reply1", p1, [A.reply("1,X"), A.reply("2,Y")]), ("reply2", p2, [A.reply("5"), A.reply("zz")]),
                                            ("replyB", p1, [A.reply("7,Q"), A.reply("8,R")])]):
        for which in range(len(tail)):
            d = A.session("C13i-%s-%d" % (nm, which), prog + [run_] + tail)
            d["sweep"] = {"cmd": len(prog) + 1 + which, "max": 40, "inspect": A.direct(A.pr(A.var("Z9"), ";")) if which else None}
            ii.append(d)
    d = A.session("C13i-list", p3 + [run_])
    d["sweep"] = {"cmd": len(p3), "max": 60, "inspect": None}
    ii.append(d)
    # INPUT directly followed by STOP / an error (the reply's last field and the stop may fall into one slice)
    p4 = [A.line(10, A.input_([B])), A.line(20, A.stop()), A.line(30, A.pr(B))]
    p5 = [A.line(10, A.input_([B, N]), A.pr(A.bin_("idiv", A.I(1), A.I(0)))), A.line(20, A.pr(B))]
    ii.append(A.session("C13i-stop", p4 + [run_, A.reply("5"), cont_]))
    ii.append(A.session("C13i-err", p5 + [run_, A.reply("5,6"), A.direct(A.pr(B, ";", N))]))
    st5 = validate_sessions("C13", "inputlist", ii, timeout=3000)
    # quantum independence: the same sessions with different execute() budgets
    qs = []
    base = gen_sessions(seed + 7, 12 if quick else 150, "C13q") + pick[:40 if quick else 400] + [x for x in ii if "sweep" not in x]
    for q in (1, 2, 3, 5, 7, 64, 5000):
        for s_ in base:
            d = dict(s_)
            d["id"] = "%s@q%d" % (s_["id"], q)
            d["quantum"] = q
            qs.append(d)
    st4 = validate_sessions("C13", "quantum", qs, timeout=3000)
    return finish("C13", tier, seed, "model_checking", [st0, stv, st1, st2, stc, st3, st5, st4], t0,
                  rule="(0) TLC checks on BasicVM, the implementation-level model (bound to the code opcode by opcode in C01), "
                       "that an interrupt at every opcode boundary of every program of the space followed by CONT ends in the "
                       "store, frames and continuability of the uninterrupted manual-level run (SliceInvariant), and the "
                       "interrupt sweeps below are also walked through BasicVM step by step (stage vm-sweep: drift, if any, is a "
                       "note, not a violation); "
                       "(1) TLC checks on the specification that, for every program of the bounded grammar, every placement "
                       "of up to MaxInts interrupts (each optionally followed by an inspecting direct statement) and every "
                       "STOP, continued by CONT, yields the output and store of the uninterrupted reference run; (2) on the "
                       "code, for each sampled program the uninterrupted run is single-stepped to count its N opcodes and "
                       "for every k in 1..N a session 'interrupt after k opcodes, [inspect], CONT, run to the end' is "
                       "recorded and validated (TLC chooses the statement boundary, pinned by the probe at the interrupt); "
                       "interrupts at an INPUT prompt, between the fields of a reply being assigned, after a REDO, and in the "
                       "middle of a LIST are swept the same way; (3) the same sessions are recorded under quanta 1,2,3,5,7,64,5000 and must all be behaviours of the "
                       "same deterministic specification; non-trivial = accepted sessions in which an interrupt was delivered",
                  assumptions=ASSUME_SESS + ["the BREAK line number is not compared (the property exempts the message)"],
                  nontrivial=st2.nontrivial + st3.nontrivial)


def check_C15(tier, seed):
    import random
    r = random.Random(seed)
    import ast as A
    # random long histories over the whole number range
    extra = []
    for i in range(4 if tier == "quick" else 40):
        cmds = []
        nums = [r.choice([0, 1, 9, 10, 11, 99, 100, 255, 256, 1000, 32767, 32768, 65528, 65529, r.randint(0, 65529)])
                for _ in range(12)]
        for j in range(40 if tier == "quick" else 200):
            k = r.random()
            n = r.choice(nums)
            if k < 0.45:
                cmds.append(A.line(n, A.pr(A.Str(r.choice(["A", "B", "é"])), ";"), *([A.rem("x é")] if r.random() < 0.2 else [])))
            elif k < 0.6:
                cmds.append(A.line(n))
            else:
                a, b = r.choice(nums), r.choice(nums)
                form = r.choice(["one", "from", "to", "range", "all"])
                mk = A.list_ if k < 0.85 else A.delete
                if form == "range" and a > b and r.random() < 0.8:
                    a, b = b, a
                cmds.append(A.direct(mk(a if form in ("one", "from", "range") else None,
                                        b if form in ("to", "range") else None, form=form)))
        cmds.append(A.direct(A.list_()))
        extra.append(A.session("C15r-%d-%d" % (seed, i), cmds))
    return mc_sess_check("C15", tier, seed, "MC_C15.tla",
        rule="TLC explores the state graph of the program store over a small universe of line numbers (0, 2, 10, 65529 "
             "...) under every operation: enter / replace / bare number, LIST and DELETE in the forms n, n-, -n, a-b and "
             "bare with endpoints on, between, before and after existing lines, inverted ranges and numbers above 65529; "
             "ListExact, DeleteExact, LineExact are action properties; every transition is a session ending in a full "
             "LIST whose text must equal the specified listing; plus seeded random long histories over 0..65529",
        extra_sessions=[("rnd", extra)], vm_cfgs=[("MC_VMM15.tla", "MC_VMM15_%s.cfg" % tier)],
        vm_space="the same operations (LIST and DELETE as opcodes over the implementation's listing; the commands of the "
                 "open finding delete-full-range-is-bare are not compared there)")


def check_C20(tier, seed):
    return mc_sess_check("C20", tier, seed, "MC_C20.tla",
        rule="for every program L of the bounded grammar and every layout transformation T (remark line inserted before / "
             "between / after, unreachable lines appended after END, a multi-statement line split in two where no IF "
             "scope is crossed, the statement list typed as a direct line with 0 or 3 unrelated program lines in memory) "
             "TLC checks LayoutInvariant on the specification (responses of T(L) equal those of L up to reported line "
             "numbers, same final store); both layouts are executed by the real interpreter and validated",
        keep=lambda d: not d.get("oom"),
        vm_cfgs=[("MC_VM.tla", "MC_VM_quick2.cfg" if tier == "quick" else "MC_VM_quick.cfg")],
        vm_space="the control-flow template grammar (Linked: every branch operand is an address inside the code, resolved "
                 "through the line-number symbols)")


def check_C07(tier, seed):
    import ast as A
    t0 = time.time()
    st = tlc_replay_stage("C07", "MC_C07.tla", "MC_C07_%s.cfg" % tier, timeout=1800)
    # MID$ assignment (a statement): sessions validated against the abstract machine
    strs = ["", "A", "AB", "ABA", "é", "aé", "éa😀b", "HELLO"]
    nums = [-1, 0, 1, 2, 3, 5, 6, 255, 256]
    reps = ["", "x", "é😀", "wxyz"]
    if tier == "quick":
        nums = [-1, 0, 1, 2, 3, 6, 256]
    sess = []
    S = A.var("S$")
    def num(n):
        return A.I(n) if n >= 0 else A.un("neg", A.I(-n))
    for s_ in strs:
        for p_ in nums:
            for n_ in nums + [None]:
                for r_ in reps:
                    if tier == "quick" and (len(sess) + seed) % 3:
                        sess.append(None)
                        continue
                    sess.append(A.session("C07m-%d" % len(sess), [A.direct(
                        A.let(S, A.Str(s_)), A.mid(S, num(p_), num(n_) if n_ is not None else None, A.Str(r_)),
                        A.pr(S, ";", A.Str("|"), ";", A.call("LEN", S)))]))
    sess = [x for x in sess if x]
    st2 = validate_sessions("C07", "midassign", sess, exhaustive=True)
    return finish("C07", tier, seed, "model_checking", [st, st2], t0,
                  rule="TLC enumerates every function x argument combination of the grid (strings: empty, ASCII, multi-byte, "
                       "254/255-character runs; positions and counts -1, 0, 1, 2, len, len+1, 255, 256, 32767, 2.5; codes at "
                       "the scalar-value limits; VAL prefixes; HEX$/OCT$ boundaries; all comparisons and concatenations), "
                       "and compositions with several string temporaries (LEFT$+MID$ splits, LEFT$(RIGHT$()), MID$ of a concatenation, "
                       "INSTR in a MID$, CHR$(ASC(MID$())), VAL(STR$()), VAL(\"&H\"+HEX$()), LEN(STRING$()+..)), "
                       "checks the laws relating the operators on the specification, and every case is replayed in the VM "
                       "(value, type, error code, printed text); MID$ assignment over the same grid as sessions; "
                       "non-trivial = cases ending in an error or a non-empty / non-zero result",
                  assumptions=["harness renderer and comparator are trusted", "error codes the manual does not fix are "
                               "accepted as any BASIC error other than INTERNAL ERROR"])


def check_C02(tier, seed):
    t0 = time.time()
    st = tlc_replay_stage("C02", "MC_C02.tla", "MC_C02_%s.cfg" % tier, timeout=1800)
    rnd = gen_sessions(seed + 3, 60 if tier == "quick" else 1500, "C02r")
    st2 = validate_sessions("C02", "rnd", rnd, timeout=3000)
    return finish("C02", tier, seed, "model_checking", [st, st2], t0,
                  rule="TLC enumerates on the value specification: every binary operator x every pair of boundary leaves of "
                       "the four types (operands reach the VM through typed variables), unary operators and numeric "
                       "functions over the leaves, every ordered pair of operators in both tree shapes rendered with "
                       "minimal parentheses (and fully parenthesised), numeric literals by structure against the six typing "
                       "rules, and assignment of every leaf to a target of every type (suffix or DEFtype); TypeLaw is "
                       "checked on the specification; each case is replayed in the VM comparing value, type and error "
                       "code; plus seeded random expression trees inside programs validated by trace validation; "
                       "non-trivial = prec cases whose other grouping evaluates differently in the model, mixed-type or "
                       "failing bin/let cases",
                  assumptions=["floating-point content specified on short dyadic rationals only (types everywhere)",
                               "harness renderer and comparator trusted"])



def pool_stage(pid):
    """the variable pool at the real limit: PoolLimit (the store of BasicMachine abstracted to its cardinality and a few
    named scalars) is model-checked with a small limit, then the interpreter is driven to the edge of its pool and every
    command's outcome (refused or not, number of stored variables afterwards, value read back) must be the PoolLimit
    action into exactly that pool size"""
    import gen18
    st = Stage()
    d = common.outdir(pid)
    r0 = common.run_tlc(pid, "PoolLimit.tla", os.path.join(SPEC, "PoolLimit.cfg"), timeout=600, tag="pool")
    if not r0["ok"]:
        raise ToolError("TLC reports a violation on PoolLimit itself: %s; see %s" % (r0["error"] or r0["violated"], r0["out"]))
    st.states += r0.get("distinct", 0)
    sess, evs = gen18.pool_session()
    sp, tp, ep = (os.path.join(d, "pool." + x) for x in ("sessions.ndjson", "trace.ndjson", "events.ndjson"))
    with open(sp, "w") as f:
        f.write(json.dumps(sess) + "\n")
    t0 = time.time()
    common.run_bvh(["drive", sp, tp])
    rec = json.loads(open(tp).readline())
    events = []
    for c, e in zip(rec["cmds"], evs):
        if e is None:
            continue
        e = dict(e)
        codes = [x["code"] for it in c["resp"] if it.get("k") == "err" for x in it["errs"]]
        if c.get("wait") != "ready" or any(k != 7 for k in codes):
            e = {"ev": "unexpected", "wait": c.get("wait"), "codes": codes, "was": e}
        else:
            e["resp"] = "oom" if codes else "ok"
            e["card"] = c["probe"]["nvars"]
            if e["ev"] == "get":
                text = "".join(chr(x) for it in c["resp"] if it.get("k") == "out" for x in it["s"])
                try:
                    e["val"] = int(text.replace("READY.", "").strip() or "x")
                except ValueError:
                    e = {"ev": "unexpected", "text": text, "was": e}
        events.append(e)
    with open(ep, "w") as f:
        for e in events:
            f.write(json.dumps(e) + "\n")
    r = common.run_tlc(pid, "PoolTrace.tla", os.path.join(SPEC, "PoolTrace.cfg"), timeout=900, workers=1,
                       env_extra={"TRACE": ep}, tag="pooltrace")
    if not r["ok"]:
        raise ToolError("TLC failed on PoolTrace: %s; see %s" % (r["error"] or r["violated"], r["out"]))
    verdict = []
    for ln in open(r["out"]):
        if ln.startswith('"{'):
            try:
                x = json.loads(json.loads(ln))
            except ValueError:
                continue
            if x.get("T") in ("ACCEPT", "STUCK"):
                verdict.append(x)
    st.evaluations = 1
    st.transitions = len(events)
    st.nontrivial = sum(1 for e in events if e.get("resp") == "oom")
    st.exhaustive = False
    st.notes["pool"] = {"events": len(events), "refused_(OUT_OF_MEMORY)": st.nontrivial,
                        "largest_pool_observed": max([e.get("card", 0) for e in events] or [0]),
                        "PoolLimit_small_limit_distinct_states": r0.get("distinct", 0),
                        "drive_wall_s": round(time.time() - t0, 1), "verdict": verdict[:1]}
    if len(verdict) == 1 and verdict[0]["T"] == "ACCEPT":
        st.validated = 1
        st.samples.append({"case": {"session": sess["id"], "events": events[:6]}, "observed": "accepted by PoolTrace"})
    else:
        v = verdict[0] if verdict else {}
        bad = events[v["l"] - 1] if v.get("l") and v["l"] <= len(events) else None
        st.failures.append({"case": sess, "why": "the variable pool at its limit: event %s (%s) is not a step of PoolLimit from %s"
                                                % (v.get("l"), json.dumps(bad), json.dumps(v.get("pre"))),
                            "observed": {"events": events}})
    return st


def check_C18(tier, seed):
    import gen18
    t0 = time.time()
    quick = tier == "quick"
    st0 = tlc_mc("C18", "MC_C01.tla", "MC_C18_%s.cfg" % tier, timeout=3000)
    # the stack discipline of the compiled code, on the implementation-level model: FramesAtLineStart, and the
    # stack depth equal to the specified frames at every prompt (part of Refines)
    stv = tlc_mc("C18", "MC_VM.tla", "MC_VM_quick2.cfg" if quick else "MC_VM_quick.cfg", timeout=3000)
    leak = gen18.leak_sessions(25 if quick else 400)
    st1 = validate_sessions("C18", "leak", leak, timeout=3000, exhaustive=True)
    stages = [st0, stv, st1, code_stage("C18", "vm", leak, max_steps=600)]
    if not quick:
        stages.append(validate_sessions("C18", "leaklong", gen18.leak_sessions(3000, prefix="C18x")[::7], timeout=6000))
    lim = gen18.limit_sessions()
    stages.append(validate_sessions("C18", "limits", lim, timeout=6000, chunk=1))
    stages.append(pool_stage("C18"))
    return finish("C18", tier, seed, "model_checking", stages, t0,
                  rule="(1) TLC checks StmtNeutral (frames change only through FOR / NEXT / GOSUB / RETURN / ON..GOSUB / RUN / "
                       "CLEAR / errors) and PoolBounded on the abstract machine for every program of the bounded grammar with a "
                       "small pool; (2) every statement kind (35 templates) is executed N times in a GOTO loop, in a FOR loop "
                       "and in a subroutine, then STOP exposes the interpreter's stack: the probe must show exactly the "
                       "specified frames, zero stray stack values and no slot for variables set back to 0 / \"\"; (3) each "
                       "pool (GOSUB recursion, abandoned FOR frames, FN recursion, ON..GOSUB recursion) is driven past the "
                       "real limit of 65535: OUT OF MEMORY is specified and the session must remain usable; (4) the variable "
                       "pool: PoolLimit (the store's rule abstracted to its cardinality) is model-checked with a small limit "
                       "(PoolBounded, RefusedChangesNothing), then the interpreter is filled to 65534 variables and stepped "
                       "across the limit one assignment per command: refusals, pool sizes and values read back must be a "
                       "behaviour of PoolLimit with the real limit (PoolTrace)."
                       + VM_RULE % "the control-flow template grammar",
                  assumptions=ASSUME_SESS + ["the DATA and code pools are not driven to their limit"])


def check_C14(tier, seed):
    t0 = time.time()
    stages = []
    cfgs = ["MC_C14_quick.cfg"] if tier == "quick" else ["MC_C14_thorough.cfg", "MC_C14_thorough_b.cfg"]
    for i, cfg in enumerate(cfgs):
        st1, sess = tlc_sessions("C14", "MC_C14.tla", cfg, timeout=6000, keep=lambda d: not d.get("oom"))
        stages.append(st1)
        stages.append(validate_sessions("C14", "mc%d" % i, sess, exhaustive=True, timeout=6000))
    return finish("C14", tier, seed, "model_checking", stages, t0,
                  rule="every two-line program (plus a fixed last line) over the referencing statement forms (GOTO after a "
                       "non-ASCII string literal, GOSUB, IF..THEN n ELSE n, IF..GOTO, ON..GOTO, ON..GOSUB, RESTORE [n], RUN [n], "
                       "LIST / DELETE in every operand form) x every RENUM argument triple of the configuration (omitted "
                       "operands, 0, step 0, overflow past 65529, order violations); TLC checks RenumExact and RenumSound on "
                       "the specification; each case is a session (lines, RENUM, LIST with text compared, RUN) executed by "
                       "the real interpreter and validated",
                  assumptions=ASSUME_SESS)


def c19_edit_sessions():
    """a fault that an edit introduces while a stopped program could be continued: the program ran and stopped, a
    line that is referenced (a GOTO target, a WEND) is deleted / replaced, then CONT, RETURN, NEXT, RUN, GOTO:
    nothing of the program may execute any more"""
    import ast as A
    a = A.var("A")
    out = []
    progs = {
        "goto": [A.line(10, A.pr(A.Str("S"), ";")), A.line(20, A.stop()), A.line(30, A.goto(50)), A.line(40, A.pr(A.Str("X"), ";")),
                 A.line(50, A.pr(A.Str("E"), ";"))],
        "wend": [A.line(10, A.pr(A.Str("S"), ";")), A.line(20, A.stop()), A.line(30, A.while_(A.bin_("lt", a, A.I(1)))),
                 A.line(40, A.let(a, A.bin_("add", a, A.I(1)))), A.line(50, A.wend())],
        "gosub": [A.line(10, A.gosub(40)), A.line(20, A.pr(A.Str("B"), ";")), A.line(30, A.end()), A.line(40, A.for_(A.var("I"), A.I(1), A.I(2))),
                  A.line(45, A.stop()), A.line(50, A.next_(), A.ret())],
    }
    edits = {"delete": lambda n: A.line(n), "replace": lambda n: A.line(n, A.rem("gone")),
             "insert": lambda n: A.line(n + 5, A.goto(999))}
    victim = {"goto": 50, "wend": 50, "gosub": 20}
    tails = {"cont": [A.direct(A.cont())], "return": [A.direct(A.ret())], "next": [A.direct(A.next_())],
             "run": [A.direct(A.run())], "goto": [A.direct(A.goto(10))], "cont2": [A.direct(A.pr(a, ";")), A.direct(A.cont())]}
    for pn, prog in progs.items():
        for en, ed in edits.items():
            if pn == "gosub" and en != "insert":
                # deleting / replacing line 20 leaves the program well-formed: the stale frames still may not be resumed
                pass
            for tn, tail in tails.items():
                out.append(A.session("C19e-%s-%s-%s" % (pn, en, tn), prog + [A.direct(A.run()), ed(victim[pn])] + tail
                                     + [A.direct(A.list_())]))
    return out


def check_C19(tier, seed):
    return mc_sess_check("C19", tier, seed, "MC_C19.tla", extra_sessions=[("edits", c19_edit_sessions())],
        rule="three-line programs (line numbers of 1, 2 and 5 digits) with one injected fault -- a dangling line number in "
             "every referencing form and operand position, unmatched / crossed WHILE and WEND, token-level damage -- preceded "
             "on its line by nothing, an ASCII statement or multi-byte string literals, the fault on the first, second or "
             "third line; TLC checks DiagInside (existing line, range inside the listed text, exactly the missing number / "
             "exactly the keyword) and NoRun (no program statement executes on RUN, GOTO n, GOSUB n, RUN n, CONT, ON..GOTO, "
             "PRINT:GOTO) on the specification; each session (RUN, LIST with underlines, direct statements, every way of "
             "entering the program) is executed by the real interpreter: codes, lines, character ranges and underline "
             "ranges must equal the specified ones; plus sessions in which the fault is introduced by an edit (a referenced "
             "line deleted, replaced, a dangling reference inserted) while a stopped program could be continued, followed "
             "by CONT / RETURN / NEXT / RUN / GOTO",
        keep=lambda d: not d.get("oom"), vm_cfgs=[])


def lex_mutations(seed, n):
    """long source lines: programs of the random generator rendered to text, then damaged at token level
    (deleted / duplicated / transposed pieces, case changes, blanks removed or inserted)"""
    import random, gen, subprocess
    r = random.Random(seed)
    sess = gen_sessions(seed + 11, max(4, n // 20), "C05src")
    sp = os.path.join(common.outdir("C05"), "src.sessions.ndjson")
    with open(sp, "w") as f:
        for s_ in sess:
            f.write(json.dumps(s_) + "\n")
    out = subprocess.run([common.BVH, "render", sp], stdout=subprocess.PIPE, text=True, check=True).stdout
    lines = [l for l in out.splitlines() if l.strip()]
    cases = []
    pieces = [" ", "  ", ":", ";", ",", "(", ")", "\"", "E", "D", "e", "1", ".", "&H", "&", "<", "=", ">", "'", "REM", "GO",
              "TO", "é", "😀", "!", "#", "%", "$", "?", "THEN", "ELSE", "1E5", "1D", "99999", "65529", "65530"]
    for i in range(n):
        t = r.choice(lines)
        k = r.randint(0, 4)
        for _ in range(k):
            pos = r.randint(0, len(t))
            op = r.random()
            if op < 0.3:
                t = t[:pos] + r.choice(pieces) + t[pos:]
            elif op < 0.5 and t:
                t = t[:pos] + t[pos + r.randint(1, 3):]
            elif op < 0.65:
                t = t[:pos] + t[pos:].swapcase()[:r.randint(1, 6)] + t[pos + 6:]
            elif op < 0.8:
                t = t.replace(" ", "", 1) if r.random() < 0.5 else t.replace(":", " : ", 1)
            else:
                a = r.randint(0, len(t)); b = min(len(t), a + r.randint(1, 8))
                t = t[:pos] + t[a:b] + t[pos:]
        if r.random() < 0.05:
            t = (t + ":") * r.randint(2, 12)
        t = t[:1024]
        cases.append({"R": "lex", "x": [ord(c) for c in t]})
    return cases


def lex_layouts():
    """indentation and runs of blanks: the blank(s) after the line number, between tokens, before and after the
    statement separator, at the end of the line (the listed text must be a fixed point whatever the spacing)"""
    cases = []
    bodies = ["PRINT I", "A=1", "REM x", "FOR I=1 TO 3", "IF A THEN 10", "PRINT \"a  b\";X", "'c", "DATA 1, 2", "GOTO 10"]
    for n in ("1", "20", "65529"):
        for k in range(0, 6):
            for body in bodies:
                cases.append(n + " " * k + body)
    for gap in ("  ", "   ", "\t", " \t ", "    "):
        for body in ("PRINT%sI", "A%s=%s1", "FOR%sI=1%sTO%s3", "IF A%sTHEN%s10", "PRINT 1%s:%sPRINT 2", "10 PRINT%s1%s", "10%sREM%sx%s",
                     "PRINT%s\"a\"%s;%sX", "10 A$%s=%s\"q\"%s+%sB$"):
            cases.append(body.replace("%s", gap))
            cases.append("30 " + body.replace("%s", gap))
            cases.append("30" + gap + body.replace("%s", gap))
    # lines whose listed text is just below, at and just above the line limit (SAVE then LOAD)
    for n in (1021, 1022, 1023, 1024, 1025):
        cases.append("10 REM " + "x" * (n - 7))
        cases.append("10 PRINT \"" + "a" * (n - 11) + "\"")
        cases.append("65529 A=" + "1+" * ((n - 9) // 2) + "1")
    return [{"R": "lex", "x": [ord(c) for c in t]} for t in cases]


def replay_cases_stage(pid, name, cases):
    st = Stage()
    d = common.outdir(pid)
    cp = os.path.join(d, name + ".cases.ndjson")
    with open(cp, "w") as f:
        for c in cases:
            f.write(json.dumps(c) + "\n")
    resp = cp + ".result.json"
    common.run_bvh(["replay", cp, resp])
    res = json.load(open(resp))
    st.evaluations = res["total"]
    st.validated = res["ok"]
    st.skipped = res["skipped"]
    st.nontrivial = res.get("nontrivial", 0)
    st.failures = res["fails"]
    st.samples = res["samples"][:2]
    st.notes[name] = {"cases": res["total"], "ok": res["ok"], "failed": res["failed"]}
    return st


def check_C05(tier, seed):
    t0 = time.time()
    stages = []
    for cfg in ("MC_C05_%s.cfg" % tier, "MC_C05_%s_b.cfg" % tier):
        stages.append(tlc_replay_stage("C05", "MC_C05.tla", cfg, timeout=6000))
    stages.append(replay_cases_stage("C05", "long", lex_mutations(seed, 3000 if tier == "quick" else 60000)))
    stages.append(replay_cases_stage("C05", "layout", lex_layouts()))
    return finish("C05", tier, seed, "model_checking", stages, t0,
                  rule="TLC enumerates every string up to the bound over the lexically significant alphabet (digits, point, "
                       "exponent letters in both cases, hex letters, keyword-forming letters, suffixes, &, H, quote, remark "
                       "markers, ?, punctuation, operators, blank, a non-ASCII letter; a longer bound over a reduced "
                       "alphabet), runs the model scanner (BasicLex), checks ModelRoundTrip on the model, and prints each "
                       "string with the model's tokens and listed text; the harness feeds each to the real lexer / lister / "
                       "parser and checks the property's relations (same number, same parse or rejected in both, fixed point "
                       "for lines that parse, string literals and remark text preserved); plus seeded long lines (rendered "
                       "programs damaged at token level) and a fixed family of layouts (0-5 blanks after the line number, runs "
                       "of blanks and tabs between tokens, around separators and at the end). A difference between model scanner and implementation alone is "
                       "counted as model_divergence, never as a violation; non-trivial = lines that parse",
                  assumptions=["column ranges are removed from the Debug form of ASTs before they are compared",
                               "the harness comparator is trusted"])


def check_C16(tier, seed):
    import subprocess, random
    t0 = time.time()
    quick = tier == "quick"
    r = random.Random(seed)
    # 1. programs of the other spaces
    st1, mc = tlc_sessions("C16", "MC_C01.tla", "MC_C01_quick.cfg", timeout=3000, keep=lambda d: not d.get("oom"))
    base = mc[seed % 25::25 if quick else 3] + gen_sessions(seed + 21, 40 if quick else 600, "C16r")
    st14, mc14 = tlc_sessions("C16", "MC_C14.tla", "MC_C14_quick.cfg", timeout=3000, keep=lambda d: not d.get("oom"))
    base += mc14[seed % 60::60 if quick else 6]
    d = common.outdir("C16")
    sp = os.path.join(d, "base.sessions.ndjson")
    with open(sp, "w") as f:
        for s_ in base:
            f.write(json.dumps(s_) + "\n")
    out = subprocess.run([common.BVH, "render", sp], stdout=subprocess.PIPE, text=True, check=True).stdout
    lines = sorted(set(l for l in out.splitlines() if l.strip()))
    lp = os.path.join(d, "lines.ndjson")
    with open(lp, "w") as f:
        for l in lines:
            f.write(json.dumps({"x": [ord(c) for c in l]}) + "\n")
    # 2. the model produces the variants and checks SpellingSound; each variant is replayed
    st2 = tlc_replay_stage("C16", "MC_C16.tla", "MC_C16.cfg", timeout=6000, env_extra={"LINES": lp})
    # 3. whole sessions re-typed in variant spellings must run identically (trace validation)
    var = {}
    with open(os.path.join(d, "MC_C16.tlcout.cases.ndjson")) as f:
        for line in f:
            c = json.loads(line)
            canon = "".join(map(chr, c["canon"]))
            text = "".join(map(chr, c["x"]))
            lists = "".join(map(chr, c["lists"]))
            if c["kind"] in ("alias", "alias2") and lists != canon:
                continue          # (optional LET dropped / remark marker changed: listing differs by design)
            var.setdefault(canon, {})[c["kind"]] = text
    sess = []
    for s_ in base:
        for kind in ("lower", "mixed", "squeeze", "alias", "alias2", "all"):
            cmds = []
            changed = 0
            for c in s_["cmds"]:
                c2 = dict(c)
                if c["k"] in ("line", "direct"):
                    canon = subprocess_text(c)
                    t = var.get(canon, {}).get(kind)
                    if t is not None and t != canon:
                        c2["text"] = t
                        changed += 1
                cmds.append(c2)
            if changed:
                d2 = dict(s_)
                d2["cmds"] = cmds
                d2["id"] = "%s~%s" % (s_["id"], kind)
                sess.append(d2)
    st3 = validate_sessions("C16", "spelled", sess, timeout=6000)
    # 4. letter case over every short string of the lexical alphabet (the C05 enumeration): the upper-case
    #    spelling must list and parse alike
    os.environ["VERIF_LEX_CASECHECK"] = "1"
    try:
        st4 = tlc_replay_stage("C16", "MC_C05.tla", "MC_C05_%s_b.cfg" % tier, timeout=6000)
    finally:
        os.environ.pop("VERIF_LEX_CASECHECK", None)
    return finish("C16", tier, seed, "model_checking", [st1, st14, st2, st3, st4], t0,
                  rule="the canonical lines of sampled programs (bounded grammar, RENUM forms, seeded random programs) are "
                       "read by the model scanner (BasicLex); MC_C16 derives six variants per line (lower case, mixed case, "
                       "optional blanks removed wherever the model still sees the same words, aliases ? ' GO TO GO SUB =< = > "
                       "< > and LET dropped, the other comparison spellings = < => > <, all combined) and checks SpellingSound on the model; each variant is fed to the "
                       "real lexer / lister / parser (lists as the model says, parses like the canonical text); every session "
                       "is then re-typed in each spelling and trace-validated against the same AST-level specification (runs "
                       "and lists identically); finally every string of the C05 enumeration (reduced alphabet with both cases of the "
                       "exponent letters) is compared with its upper-case spelling (same listing, same parse); "
                       "non-trivial = variants whose text differs from the canonical one",
                  assumptions=ASSUME_SESS)


_RENDER_CACHE = {}


def subprocess_text(cmd):
    """canonical text of a command (harness renderer), cached"""
    import subprocess
    key = json.dumps(cmd, sort_keys=True)
    if key not in _RENDER_CACHE:
        if not _RENDER_CACHE.get("__proc"):
            _RENDER_CACHE["__proc"] = subprocess.Popen([common.BVH, "render1"], stdin=subprocess.PIPE,
                                                       stdout=subprocess.PIPE, text=True, bufsize=1)
        p = _RENDER_CACHE["__proc"]
        p.stdin.write(json.dumps(cmd) + "\n")
        p.stdin.flush()
        _RENDER_CACHE[key] = p.stdout.readline().rstrip("\n")
    return _RENDER_CACHE[key]


def shell_stage(pid, name, scripts, chunk=None, timeout=3000):
    """run the scripts on the real Runtime (bvh shell) and validate the recorded call traces against RuntimeShell"""
    st = Stage()
    d = common.outdir(pid)
    sp = os.path.join(d, name + ".scripts.ndjson")
    tp = os.path.join(d, name + ".shelltrace.ndjson")
    with open(sp, "w") as f:
        for s_ in scripts:
            f.write(json.dumps(s_) + "\n")
    t0 = time.time()
    common.run_bvh(["shell", sp, tp], timeout=timeout)
    t_drive = time.time() - t0
    n = len(scripts)
    if chunk is None:
        chunk = max(1, min(40, n // (common.TLC_WORKERS * 4) + 1))
    r = common.run_tlc(pid, "TraceShell.tla", os.path.join(SPEC, "TraceShell.cfg"), timeout=timeout,
                       env_extra={"TRACE": tp, "CHUNK": str(chunk)}, java_opts="-Xss512m", tag=name)
    if r["violated"]:
        raise ToolError("an invariant of RuntimeShell failed during trace validation (%s): %s; see %s"
                        % (name, r["violated"], r["out"]))
    if not r["ok"]:
        raise ToolError("TLC failed validating %s: %s; see %s" % (name, r["error"], r["out"]))
    acc, stuck = set(), {}
    with open(r["cases"]) as f:
        for line in f:
            dct = json.loads(line)
            if dct.get("T") == "ACCEPT":
                acc.add(dct["id"])
            elif dct.get("T") == "STUCK":
                stuck.setdefault(dct["id"], dct)
    byid = {s_["id"]: s_ for s_ in scripts}
    ncalls = 0
    with open(tp) as f:
        for line in f:
            rec = json.loads(line)
            ncalls += len(rec["ev"])
            if rec["id"] in acc:
                continue
            info = stuck.get(rec["id"], {})
            l = info.get("l")
            evl = rec["ev"][l - 1] if l and l <= len(rec["ev"]) else None
            if rec["end"] in ("panic", "hang"):
                why = "the interpreter %s during %s" % ("panicked" if rec["end"] == "panic" else "did not return", rec["ev"][-1].get("info"))
            else:
                why = "call trace rejected by RuntimeShell at call %s: %s from %s" % (l, json.dumps(evl), json.dumps(info.get("pre")))
            st.failures.append({"case": byid[rec["id"]], "why": why, "observed": {"end": rec["end"], "calls": rec["ev"][max(0, (l or 1) - 6):(l or 1)]},
                                "spec": info})
    st.evaluations = n
    st.validated = len(acc)
    st.states = r["distinct"]
    st.transitions = r["generated"]
    st.nontrivial = len(acc)
    st.notes[name] = {"scripts": n, "api_calls": ncalls, "accepted": len(acc), "rejected": n - len(acc),
                      "drive_wall_s": round(t_drive, 1), "tlc_wall_s": round(r["wall"], 1)}
    if acc:
        st.notes[name]["negative_controls_rejected"] = negative_controls(pid, name, tp, acc, "shell")
    if scripts:
        st.samples.append({"script": scripts[0]["id"], "ops": [o.get("text", o["op"])[:60] for o in scripts[0]["ops"][:10]]})
    return st


def check_C03(tier, seed):
    import gen03
    t0 = time.time()
    quick = tier == "quick"
    st0 = tlc_mc("C03", "RuntimeShell.tla", "RuntimeShell.cfg", timeout=3000)
    # the same liveness one level down: on BasicVM (the implementation-level model bound to the code in C01) an
    # interrupt at any opcode boundary of any program of the space reaches the prompt under weak fairness of execute
    st0b = tlc_mc("C03", "MC_VM.tla", "MC_VM_live_%s.cfg" % tier, timeout=3000)
    st1 = shell_stage("C03", "menu", gen03.menu_sessions(seed, 400 if quick else 6000, 14))
    st2 = shell_stage("C03", "short", gen03.short_string_sessions(2 if quick else 3))
    sess = gen_sessions(seed + 31, 12 if quick else 200, "C03src")
    import subprocess
    sp = os.path.join(common.outdir("C03"), "src.sessions.ndjson")
    with open(sp, "w") as f:
        for s_ in sess:
            f.write(json.dumps(s_) + "\n")
    lines = [l for l in subprocess.run([common.BVH, "render", sp], stdout=subprocess.PIPE, text=True, check=True).stdout.splitlines() if l.strip()]
    muts = ["".join(map(chr, c["x"])) for c in lex_mutations(seed + 5, 300 if quick else 5000)]
    st3 = shell_stage("C03", "soup", gen03.soup_sessions(seed, 150 if quick else 3000, lines + muts))
    st4 = shell_stage("C03", "reply", gen03.reply_sessions(2 if quick else 4))
    st5 = shell_stage("C03", "builtins", gen03.builtin_sessions())
    return finish("C03", tier, seed, "model_checking", [st0, st0b, st1, st2, st3, st4, st5], t0,
                  rule="(1) TLC checks ProtocolSafe, CacheCoherent and the liveness property Converges (after one interrupt and no "
                       "further input the prompt is reached, under weak fairness of execute) on RuntimeShell, the "
                       "implementation-shaped model of the run states and of the terminal's calling protocol, and IntrConverges "
                       "on BasicVM (an interrupt at any opcode boundary of any program of the bounded space leads to the prompt); (2) on the code: "
                       "seeded sequences over a menu of lines, direct statements, replies, interrupts, listing snapshots kept "
                       "alive across edits, LOAD / RUN / SAVE requests (every run state reached), every string up to the bound "
                       "over the lexical alphabet entered as a line, byte / token soup up to 4096 bytes and damaged programs run "
                       "with interrupts and replies, every INPUT form with every reply up to the bound over the reply alphabet "
                       "(quote, comma, blank, digit, letter, sign, point, ampersand, a non-ASCII letter), every built-in function and "
                       "every statement that takes a number with boundary arguments (0, negatives, the 16-bit limits, huge and tiny "
                       "floats, strings for numbers and numbers for strings); every API call is recorded with its event and a state probe and the call "
                       "trace must be a behaviour of RuntimeShell: a panic (caught) or a call that does not return within 3 s "
                       "has no counterpart and is reported with the input history",
                  assumptions=["the content of lines is opaque to the shell model (classified as long / empty / numbered / bare / "
                               "direct by the harness); the per-call watchdog is 3 s"])


CHECKS = {"C03": check_C03, "C16": check_C16, "C05": check_C05, "C19": check_C19, "C14": check_C14, "C18": check_C18, "C02": check_C02, "C07": check_C07, "C20": check_C20, "C15": check_C15, "C13": check_C13, "C12": check_C12, "C08": check_C08, "C01": check_C01, "C04": check_C04, "C06": check_C06}
for _p in ("C09", "C10", "C11", "C17"):
    CHECKS[_p] = prog_check(_p)


def check(pid, tier, seed):
    if pid not in CHECKS:
        log("no check for", pid)
        return 2
    return CHECKS[pid](tier, seed)


def replay(pid, path):
    """re-run one saved failing case against the current tree"""
    obj = json.load(open(path))
    case = obj.get("case", obj)
    if "cmds" in case and str(case.get("id", "")).endswith("-pool"):
        # the variable pool at its limit: decided by PoolTrace, not by TraceMachine (which cannot carry 65535 variables)
        st = pool_stage(pid)
        if st.failures:
            log("VIOLATION property=%s replay=%s" % (pid, path))
            log("   why: %s" % st.failures[0]["why"])
            return 1
        log("replay passes: %s (accepted by PoolTrace)" % path)
        return 0
    if "cmds" in case:
        case = dict(case)
        case.setdefault("id", "replay")
        st = validate_sessions(pid, "replay", [case], chunk=1, workers=1)
        if st.failures:
            f = st.failures[0]
            log("VIOLATION property=%s replay=%s" % (pid, path))
            log("   why: %s" % f["why"])
            for i, ln in enumerate(f.get("lines") or []):
                log("   %2d %s" % (i + 1, ln))
            return 1
        log("replay passes: %s (%d accepted, %d out of model)" % (path, st.validated, st.skipped))
        return 0
    d = common.outdir(pid)
    tmp = os.path.join(d, "replay_one.ndjson")
    with open(tmp, "w") as f:
        f.write(json.dumps(case) + "\n")
    resp = tmp + ".result.json"
    common.run_bvh(["replay", tmp, resp])
    res = json.load(open(resp))
    if res["failed"]:
        log("VIOLATION property=%s replay=%s" % (pid, path))
        log("   why: %s" % res["fails"][0]["why"])
        log(json.dumps(res["fails"][0]["observed"]))
        return 1
    log("replay passes: %s" % path)
    return 0


def setup():
    common.build_harness()
    bad = 0
    for f in sorted(os.listdir(SPEC)):
        if f.endswith(".tla"):
            r = subprocess.run(["tla-sany", f], cwd=SPEC, stdout=subprocess.PIPE, stderr=subprocess.STDOUT, text=True)
            if r.returncode != 0 or "error" in r.stdout.lower().replace("errors: 0", ""):
                log("SANY failed for", f)
                log(r.stdout[-1500:])
                bad += 1
    return 2 if bad else 0
