"""Seeded generators of BASIC programs and sessions, as ASTs (never text first).
Programs stay inside the fragment the manual defines and terminate by construction:
jumps go forward, loops are FOR loops with small bounds or WHILE loops over a counter,
subroutines only call higher-numbered subroutines."""
import random
from ast import *

NUMV = ["A", "B", "C", "D#", "E!"]
INTV = ["N%", "M%"]
STRV = ["S$", "T$"]
LOOPV = ["I", "J", "K", "L%"]
WORDS = ["", "A", "AB", "HELLO", "B C", "é", "xéy", "WUMPUS", "12", "1E"]


def flat(stmts):
    for s in stmts:
        yield s
        if s["k"] == "if":
            yield from flat(s["th"])
            yield from flat(s["el"])


class Gen:
    def __init__(self, seed, rich=True):
        self.r = random.Random(seed)
        self.rich = rich
        self.fns = []          # defined user functions (id, nparams)
        self.arrays = {}       # name -> bounds (declared) or None (auto 10)
        self.subs = []         # subroutine entry lines
        self.err_rate = 0.03
        self.layout = True     # False: no zones, TAB or POS (their padding depends on the column,
                               # which the line break forced by BREAK changes: C13 sessions)

    # ---------------- expressions
    def small_int(self):
        return self.r.choice([0, 1, 2, 3, 4, 5, 7, 10, -1, -2, -3, 12, 100, 255])

    def num_lit(self):
        r = self.r
        k = r.random()
        if k < 0.6:
            n = self.small_int()
            return I(n) if n >= 0 else par(un("neg", I(-n)))
        if k < 0.85:
            n = r.choice([1, 3, 5, 7, 9, 11, 25]); e = r.choice([1, 2, 3])
            lit = S(n, e)
            return lit if r.random() < 0.8 else par(un("neg", lit))
        n = r.choice([1, 3, 5, 15, 101]); e = r.choice([0, 1, 2])
        return D(n, e)

    def num_atom(self, loopvars=()):
        r = self.r
        k = r.random()
        if k < 0.35:
            return self.num_lit()
        if k < 0.6:
            return var(r.choice(NUMV + INTV))
        if k < 0.75 and loopvars:
            return var(r.choice(list(loopvars)))
        if k < 0.85:
            return self.arr_ref()
        if k < 0.92 and self.fns:
            ident, n = r.choice(self.fns)
            return fn(ident, *[self.num_lit() for _ in range(n)])
        return self.num_lit()

    def arr_ref(self, oob=False):
        r = self.r
        name = r.choice(["X", "Y%", "Z"])
        if name == "Z":
            bounds = self.arrays.get(name) or [10, 10]
            if name not in self.arrays:
                self.arrays[name] = None
            nd = 2
        else:
            bounds = self.arrays.get(name) or [10]
            if name not in self.arrays:
                self.arrays[name] = None
            nd = 1
        bounds = (bounds + [10, 10])[:nd]
        subs = []
        for b in bounds:
            if oob:
                subs.append(I(b + 1))
            else:
                subs.append(I(r.randint(0, min(b, 10))))
        return arr(name, *subs)

    def num_expr(self, depth=2, loopvars=()):
        r = self.r
        if depth == 0 or r.random() < 0.3:
            return self.num_atom(loopvars)
        k = r.random()
        a = self.num_expr(depth - 1, loopvars)
        b = self.num_expr(depth - 1, loopvars)
        wrap = lambda e: par(e) if e["k"] in ("bin", "un") else e
        if k < 0.55:
            return bin_(r.choice(["add", "sub", "mul", "add", "sub"]), wrap(a), wrap(b))
        if k < 0.65:
            return bin_("div", wrap(a), I(r.choice([2, 4, 8])))
        if k < 0.73:
            return bin_(r.choice(["idiv", "mod"]), wrap(a), I(r.choice([2, 3, 5, 7])))
        if k < 0.83:
            return bin_(r.choice(["eq", "ne", "lt", "le", "gt", "ge"]), wrap(a), wrap(b))
        if k < 0.9:
            return bin_(r.choice(["and", "or", "xor"]), wrap(self.int_expr()), wrap(self.int_expr()))
        if k < 0.95:
            f = r.choice(["ABS", "SGN", "INT", "CINT", "CSNG", "CDBL"])
            return call(f, a)
        return call("LEN", self.str_expr(1))

    def int_expr(self):
        r = self.r
        k = r.random()
        if k < 0.5:
            return I(self.r.choice([0, 1, 2, 3, 5, 6, 12, 255, 256]))
        if k < 0.8:
            return var(r.choice(INTV))
        return par(bin_(r.choice(["eq", "lt", "gt"]), self.num_atom(), self.num_atom()))

    def str_atom(self):
        r = self.r
        if r.random() < 0.5:
            return Str(r.choice(WORDS))
        return var(r.choice(STRV))

    def str_expr(self, depth=2):
        r = self.r
        if depth == 0 or r.random() < 0.4:
            return self.str_atom()
        k = r.random()
        a = self.str_expr(depth - 1)
        if k < 0.3:
            return bin_("add", a, self.str_expr(depth - 1))
        if k < 0.45:
            return call("LEFT$", a, I(r.randint(0, 4)))
        if k < 0.6:
            return call("RIGHT$", a, I(r.randint(0, 4)))
        if k < 0.75:
            if r.random() < 0.5:
                return call("MID$", a, I(r.randint(1, 4)))
            return call("MID$", a, I(r.randint(1, 4)), I(r.randint(0, 3)))
        if k < 0.85:
            return call("CHR$", I(r.choice([65, 66, 48, 233, 8364])))
        if k < 0.92:
            return call("STRING$", I(r.randint(0, 3)), Str(r.choice(["*", "-", "é"])))
        return call("STR$", I(self.small_int()) if r.random() < 0.7 else var(r.choice(INTV)))

    def cond(self, loopvars=()):
        r = self.r
        if r.random() < 0.25:
            return bin_(r.choice(["eq", "ne", "lt"]), self.str_atom(), self.str_atom())
        return bin_(r.choice(["eq", "ne", "lt", "le", "gt", "ge"]),
                    self.num_atom(loopvars), self.num_atom(loopvars))

    # ---------------- simple statements
    def simple(self, loopvars=()):
        r = self.r
        k = r.random()
        if k < 0.22:
            return let(var(r.choice(NUMV)), self.num_expr(2, loopvars), kw=r.random() < 0.15)
        if k < 0.30:
            return let(var(r.choice(INTV)), self.int_or_small(loopvars))
        if k < 0.38:
            return let(var(r.choice(STRV)), self.str_expr(2))
        if k < 0.46:
            return let(self.arr_ref(), self.num_expr(1, loopvars))
        if k < 0.72:
            return self.print_stmt(loopvars)
        if k < 0.76:
            return swap(var("A"), var("B")) if r.random() < 0.6 else swap(var("S$"), var("T$"))
        if k < 0.80:
            return mid(var(r.choice(STRV)), I(r.randint(1, 4)), I(r.randint(0, 3)) if r.random() < 0.5 else None,
                       self.str_atom())
        if k < 0.84:
            return let(var(r.choice(NUMV)), self.num_atom(loopvars))
        if k < 0.88:
            return read(var(r.choice(["A", "N%"]))) if self.has_data else self.print_stmt(loopvars)
        if k < 0.90:
            return restore() if self.has_data else let(var("M%"), I(1))
        if k < 0.93:
            # (no tracing in sessions that interrupt and continue: which line numbers are printed again
            # when a traced program is resumed in the middle of a line is not specified)
            return r.choice([tron(), troff()]) if self.layout else let(var("M%"), I(2))
        if k < 0.96:
            return ongoto(self.int_expr())      # empty target list never branches
        return self.print_stmt(loopvars)

    def int_or_small(self, loopvars):
        r = self.r
        if r.random() < 0.5:
            return self.int_expr()
        return bin_(r.choice(["add", "sub", "mul"]), var(r.choice(INTV)), I(r.choice([1, 2, 3])))

    def print_stmt(self, loopvars=()):
        r = self.r
        items = []
        n = r.randint(0, 3)
        for i in range(n):
            k = r.random()
            if k < 0.45:
                items.append(self.num_expr(1, loopvars))
            elif k < 0.8:
                items.append(self.str_expr(1))
            elif k < 0.9 and self.layout:
                items.append(call("TAB", I(r.choice([0, 5, 14, 20, 30]))))
            else:
                items.append(call("SPC", I(r.randint(0, 4))))
            sep = r.random()
            if i < n - 1 or sep < 0.4:
                items.append(";" if sep < 0.7 or i == n - 1 and sep < 0.3 or not self.layout else ",")
        return pr(*items, q=r.random() < 0.1)

    def faulty(self):
        """a statement that ends in a documented runtime error"""
        r = self.r
        return r.choice([
            lambda: let(var("N%"), bin_("mul", I(300), I(300))),
            lambda: pr(bin_("idiv", I(1), I(0))),
            lambda: let(self.arr_ref(oob=True), I(1)),
            lambda: let(var("A"), Str("X")),
            lambda: let(var("S$"), I(1)),
            lambda: ret(),
            lambda: next_(),
            lambda: pr(call("ASC", Str(""))),
            lambda: pr(call("MID$", Str("ABC"), I(0))),
            lambda: dim(arr("X", I(5))) if "X" in self.arrays else let(var("N%"), bin_("add", I(32767), I(1))),
            lambda: ongoto(un("neg", I(1))),
        ])()

    # ---------------- programs
    def program(self, nlines=None):
        """returns dict line number -> [stmts]"""
        r = self.r
        self.has_data = r.random() < 0.5
        nsubs = r.randint(0, 3)
        self.sub_lines = [1000 + 100 * i for i in range(nsubs)]
        prog = {}
        ln = 10
        budget = nlines or r.randint(3, 12)
        if r.random() < 0.3:
            prog[ln] = [dim(arr("X", I(r.choice([5, 12]))))]
            self.arrays["X"] = [prog[ln][0]["vs"][0]["sub"][0]["v"]["n"]]
            ln += 10
        if r.random() < 0.4:
            p = var("P")
            body = bin_("add", bin_("mul", p, I(2)), var("A"))
            prog[ln] = [def_("FNA", [p], body)]
            self.pending_fn = ("FNA", 1)
            ln += 10
            self.fns.append(("FNA", 1))
            if r.random() < 0.5:
                q = var("Q")
                prog[ln] = [def_("FNB", [p, q], bin_("sub", fn("FNA", p), q))]
                self.fns.append(("FNB", 2))
                ln += 10
        ln = self.block(prog, ln, budget, depth=0, loopvars=[], subs=list(self.sub_lines))
        # without subroutines and DATA the program may simply run off its end
        prog[ln] = [end()] if r.random() < 0.8 or nsubs or self.has_data else [self.print_stmt()]
        ln += 10
        for i, s in enumerate(self.sub_lines):
            body_ln = s
            n = r.randint(1, 3)
            later = self.sub_lines[i + 1:]
            for j in range(n):
                st = [self.simple()]
                if later and r.random() < 0.3:
                    st.append(gosub(r.choice(later)))
                prog[body_ln] = st
                body_ln += 10
            shape = r.random()
            if shape < 0.25:
                # the subroutine is left from inside its own FOR loop (the frame is discarded by RETURN)
                v = r.choice(["SI", "SJ%"])
                prog[body_ln] = [for_(var(v), I(1), I(r.randint(2, 4)))]
                prog[body_ln + 3] = [self.simple([v])]
                prog[body_ln + 6] = [if_(bin_("ge", var(v), I(r.randint(1, 3))), [ret()])]
                prog[body_ln + 8] = [next_(var(v)) if r.random() < 0.5 else next_()]
                body_ln += 10
            elif shape < 0.4:
                # ... or from inside a WHILE loop, or with a nested single-line loop completed before
                prog[body_ln] = [let(var("SW"), I(2)), while_(bin_("gt", var("SW"), I(0))), let(var("SW"), bin_("sub", var("SW"), I(1))),
                                 if_(bin_("eq", var("SW"), I(0)), [ret()])]
                prog[body_ln + 5] = [wend()]
                body_ln += 10
            prog[body_ln] = [ret()]
        if self.has_data:
            dl = r.choice([5, ln + 5, 995])
            while dl in prog:
                dl += 1
            prog[dl] = [data(*[r.choice([I(1), I(2), S(3, 1), I(7), I(40)]) for _ in range(r.randint(1, 4))])]
        return prog

    def block(self, prog, ln, budget, depth, loopvars, subs):
        """emit up to `budget` lines starting at ln; returns the next free line number"""
        r = self.r
        while budget > 0:
            k = r.random()
            if k < 0.45 or depth >= 2:
                st = [self.simple(loopvars) for _ in range(r.choice([1, 1, 2, 3]))]
                if r.random() < self.err_rate:
                    st.append(self.faulty())
                if r.random() < 0.08:
                    st.append(rem(r.choice(["", "NOTE", "x é y: PRINT 1"])))     # a remark ends the line
                prog[ln] = st
                ln += 10; budget -= 1
            elif k < 0.60:
                # IF on one line
                th = [self.simple(loopvars) for _ in range(r.choice([1, 2]))]
                el = [self.simple(loopvars) for _ in range(r.choice([0, 0, 1, 2]))]
                if r.random() < 0.25 and not el:
                    th = [if_(self.cond(loopvars), [self.simple(loopvars)], [self.simple(loopvars)])]
                    el = [self.simple(loopvars)] if r.random() < 0.5 else []
                if r.random() < 0.3 and subs and th[-1]["k"] != "if":
                    th.append(gosub(r.choice(subs)))
                    if r.random() < 0.5:
                        th.append(self.simple(loopvars))
                pre = [self.simple(loopvars)] if r.random() < 0.3 else []
                prog[ln] = pre + [if_(self.cond(loopvars), th, el)]
                ln += 10; budget -= 1
            elif k < 0.75:
                # FOR loop over several lines, maybe with an early exit
                free = [v for v in LOOPV if v not in loopvars]
                if not free:
                    continue
                v = r.choice(free)
                a = r.choice([1, 0, 2, 5]); step = r.choice([None, None, 2, -1, S(1, 1)])
                if step == -1:
                    b = a - r.randint(0, 3); stepn = par(un("neg", I(1))) if False else un("neg", I(1))
                    f = for_(var(v), I(a), I(b), stepn)
                elif step is None:
                    f = for_(var(v), I(a), I(a + r.randint(-1, 3)))
                elif step == 2:
                    f = for_(var(v), I(a), I(a + r.randint(0, 5)), I(2))
                else:
                    if v.endswith("%"):
                        f = for_(var(v), I(a), I(a + 2))
                    else:
                        f = for_(var(v), I(a), I(a + 1), step)
                if r.random() < 0.3:
                    # single-line loop
                    body = [self.simple(loopvars + [v]) for _ in range(r.choice([1, 2]))]
                    prog[ln] = [f] + body + [next_(var(v)) if r.random() < 0.5 else next_()]
                    ln += 10; budget -= 1
                    continue
                prog[ln] = [f]
                ln += 10; budget -= 1
                inner = max(1, min(budget, r.randint(1, 3)))
                start = ln
                ln = self.block(prog, ln, inner, depth + 1, loopvars + [v], subs)
                budget -= inner
                nxt = ln
                if r.random() < 0.3:
                    # early exit: jump past the NEXT from inside the body
                    mid_ln = start + 5
                    while mid_ln in prog:
                        mid_ln += 1
                    if mid_ln < nxt:
                        prog[mid_ln] = [if_(self.cond(loopvars + [v]), [goto(nxt + 5)], short=r.random() < 0.5)]
                        prog[nxt + 5] = [rem("OUT")]
                prog[nxt] = [next_(var(v)) if r.random() < 0.6 else next_()]
                ln = nxt + 10
            elif k < 0.83:
                # WHILE over a counter
                c = r.choice(["W", "W%"])
                prog[ln] = [let(var(c), I(r.randint(0, 3)))]
                ln += 10
                prog[ln] = [while_(bin_("gt", var(c), I(0)))]
                ln += 10
                inner = max(1, min(budget, r.randint(1, 2)))
                ln = self.block(prog, ln, inner, depth + 1, loopvars, subs)
                budget -= inner + 1
                prog[ln] = [let(var(c), bin_("sub", var(c), I(1))), wend()]
                ln += 10
            elif k < 0.92 and subs:
                st = [gosub(r.choice(subs))]
                if r.random() < 0.4:
                    st.append(self.simple(loopvars))
                if r.random() < 0.3:
                    st = [ongosub(self.int_expr(), *[r.choice(subs) for _ in range(r.randint(1, 3))])]
                prog[ln] = st
                ln += 10; budget -= 1
            elif k < 0.96:
                # forward jump over a line
                prog[ln] = [goto(ln + 20)] if r.random() < 0.5 else [ongoto(self.int_expr(), ln + 20, ln + 10)]
                prog[ln + 10] = [self.simple(loopvars)]
                prog[ln + 20] = [self.simple(loopvars)]
                ln += 30; budget -= 3
            else:
                prog[ln] = [stop(), self.simple(loopvars)] if r.random() < 0.5 else [self.simple(loopvars), stop(), self.simple(loopvars)]
                ln += 10; budget -= 1
        return ln

    def session(self, ident):
        """a program typed in (in shuffled order), run, and continued after each STOP"""
        r = self.r
        self.fns = []; self.arrays = {}
        prog = self.program()
        uses_tron = any(s["k"] == "tron" for n in prog for s in flat(prog[n]))
        if uses_tron:
            # known finding C01/tron-fn: calls of user functions are traced as visits of the DEF line;
            # traced programs do not call user functions (the regression case covers the finding)
            def strip(e):
                if isinstance(e, dict):
                    if e.get("k") == "fn":
                        return I(1)
                    return {k: strip(v) for k, v in e.items()}
                if isinstance(e, list):
                    return [strip(x) for x in e]
                return e
            for n in list(prog):
                prog[n] = [s if s["k"] == "def" else strip(s) for s in prog[n]]
            # what TRON prints when a subroutine returns to a line with nothing left to
            # execute is not fixed by the manual: keep something after such a GOSUB
            for n in prog:
                for s in flat(prog[n]):
                    if s["k"] == "if":
                        for br in (s["th"], s["el"]):
                            if br and br[-1]["k"] in ("gosub", "ongosub"):
                                br.append(let(var("M%"), var("M%")))
        nums = list(prog.keys())
        if r.random() < 0.5:
            r.shuffle(nums)
        cmds = [line(n, *prog[n]) for n in nums]
        cmds.append(direct(run()))
        nstops = sum(1 for n in prog for s in prog[n] if s["k"] == "stop")
        for _ in range(nstops):
            if r.random() < 0.5:
                cmds.append(direct(pr(var("A"), ";", var("N%"))))
            cmds.append(direct(cont()))
        cmds.append(direct(pr(var("A"), var("S$"), var("N%"))))
        return session(ident, cmds)
