#!/usr/bin/env python3
"""print a TLC -dumpTrace json counterexample compactly"""
import json, sys
d = json.load(open(sys.argv[1]))
keys = sys.argv[2:] 
for i, st in enumerate(d['counterexample']['state']):
    s = st[1] if isinstance(st, list) else st
    print("--- state", i + 1)
    for k, v in s.items():
        if k == 'm':
            mk = keys or ['mode', 'pc', 'vars', 'ctl', 'dptr', 'cont', 'contx', 'resp', 'col', 'why']
            for kk in mk:
                if kk in v:
                    print("   m.%s = %s" % (kk, json.dumps(v[kk])[:400]))
        elif k in ('cmds',):
            print("  ", k, "last =", json.dumps(v[-1])[:300] if v else None, "len", len(v))
        else:
            print("  ", k, "=", json.dumps(v)[:600])
