#!/usr/bin/env python3
"""Confirm a seeded change (patch.diff + demo_test.rs from a sub-agent) and run checks against it.

usage: seed.py <name> <agent_outdir> <property> [check ids ...]

1. in a scratch worktree of /repo (under /tmp/mut): the patch applies, the crate builds, the existing
   tests pass with it, the demonstration fails with it and passes without it;
2. the patch is applied to /repo itself, the listed checks (default: the property's own) are run in
   the quick tier, and /repo is restored (git checkout -- .) whatever happens;
3. /verif/seeded/<name>/ gets patch.diff, the demonstration and meta.json (what it breaks, what it
   needs, what was run, which checks caught it).
"""
import json, os, shutil, subprocess, sys, time

VERIF = os.path.dirname(os.path.dirname(os.path.abspath(__file__)))


def sh(cmd, cwd=None, timeout=3600):
    r = subprocess.run(cmd, cwd=cwd, shell=isinstance(cmd, str), stdout=subprocess.PIPE, stderr=subprocess.STDOUT, text=True,
                       timeout=timeout)
    return r.returncode, r.stdout


def main():
    name, outdir, prop = sys.argv[1], sys.argv[2], sys.argv[3]
    checks = sys.argv[4:] or [prop]
    patch = os.path.join(outdir, "patch.diff")
    demo = os.path.join(outdir, "demo_test.rs")
    meta_in = {}
    if os.path.exists(os.path.join(outdir, "meta.json")):
        try:
            meta_in = json.load(open(os.path.join(outdir, "meta.json")))
        except Exception:
            meta_in = {}
    prev = os.path.join(VERIF, "seeded", name, "meta.json")
    if os.environ.get("SEED_SKIP_CONFIRM") == "1" and os.path.exists(prev):
        # the confirmation (scratch worktree: existing tests pass, demo fails with / passes without) was done before
        pm = json.load(open(prev))
        res = {"name": name, "property": prop, "summary": pm.get("what_it_breaks"), "needs": pm.get("needs_to_manifest")}
        res.update(pm.get("confirmed", {}))
        return finish_checks(res, name, patch, demo, prop, checks)
    wt = "/tmp/mut/verify-%s" % name
    sh("git -C /repo worktree remove --force %s" % wt)
    shutil.rmtree(wt, ignore_errors=True)
    rc, out = sh("git -C /repo worktree add -q --detach %s HEAD" % wt)
    assert rc == 0, out
    res = {"name": name, "property": prop, "summary": meta_in.get("summary"), "needs": meta_in.get("needs")}
    try:
        # demo passes without the change
        shutil.copy(demo, os.path.join(wt, "tests", "zz_seeded_demo.rs"))
        rc0, out0 = sh("cargo test --offline --test zz_seeded_demo 2>&1 | tail -15", cwd=wt)
        res["demo_passes_without_change"] = "test result: ok" in out0 and "FAILED" not in out0
        rc, out = sh("git apply %s" % patch, cwd=wt)
        res["patch_applies"] = rc == 0
        if rc != 0:
            res["error"] = out[-800:]
            return res
        rc1, out1 = sh("cargo test --offline --test zz_seeded_demo 2>&1 | tail -25", cwd=wt)
        res["demo_fails_with_change"] = ("FAILED" in out1 or "panicked" in out1) and "could not compile" not in out1
        res["demo_output_with_change"] = out1[-1200:]
        os.remove(os.path.join(wt, "tests", "zz_seeded_demo.rs"))
        rc2, out2 = sh("cargo test --offline 2>&1 | grep -E 'test result|FAILED|error(\\[|:)' | head -20", cwd=wt)
        res["existing_tests_pass_with_change"] = "FAILED" not in out2 and "error" not in out2 and "test result: ok" in out2
        res["existing_tests_output"] = out2[-600:]
    finally:
        sh("git -C /repo worktree remove --force %s" % wt)
        shutil.rmtree(wt, ignore_errors=True)
    return finish_checks(res, name, patch, demo, prop, checks)


def finish_checks(res, name, patch, demo, prop, checks):
    confirmed = all(res.get(k) for k in ("patch_applies", "demo_passes_without_change", "demo_fails_with_change",
                                          "existing_tests_pass_with_change"))
    res["confirmed"] = confirmed
    res["checks"] = {}
    if confirmed and os.environ.get("SEED_ISO") == "1":
        # isolated mode: scratch worktree + copy of /verif (see seed_iso.py); /repo is not touched
        rc, out = sh([sys.executable, os.path.join(VERIF, "lib", "seed_iso.py"), name, patch] + checks, timeout=14400)
        line = [l for l in out.splitlines() if l.startswith("{")]
        res["checks"] = json.loads(line[-1])["checks"] if line else {"error": out[-500:]}
        res["caught_by"] = [c for c, v in res["checks"].items() if isinstance(v, dict) and v.get("exit") == 1 and v.get("violations", 0) > 0]
        res["mode"] = "isolated copy"
    elif confirmed:
        rc, out = sh("git -C /repo status --porcelain")
        assert out.strip() == "", "/repo is not clean: " + out
        try:
            rc, out = sh("git -C /repo apply %s" % patch)
            assert rc == 0, out
            for c in checks:
                t0 = time.time()
                rc, out = sh([os.path.join(VERIF, "check"), c, "--tier", "quick"], cwd=VERIF, timeout=7200)
                viol = [l for l in out.splitlines() if l.startswith("VIOLATION")]
                why = [l.strip() for l in out.splitlines() if l.strip().startswith("why:")]
                res["checks"][c] = {"exit": rc, "violations": len(viol), "first_why": why[:2], "wall_s": round(time.time() - t0, 1),
                                    "tail": out.splitlines()[-1] if out.strip() else ""}
        finally:
            sh("git -C /repo checkout -- .")
        res["caught_by"] = [c for c, v in res["checks"].items() if v["exit"] == 1 and v["violations"] > 0]
    d = os.path.join(VERIF, "seeded", name)
    os.makedirs(d, exist_ok=True)
    shutil.copy(patch, os.path.join(d, "patch.diff"))
    shutil.copy(demo, os.path.join(d, "demo_test.rs"))
    meta = {"property": prop, "what_it_breaks": res.get("summary"), "needs_to_manifest": res.get("needs"),
            "confirmed": {k: res.get(k) for k in ("patch_applies", "existing_tests_pass_with_change", "demo_fails_with_change",
                                                   "demo_passes_without_change")},
            "what_was_run": ["scratch worktree of /repo: cargo test --offline (existing suite) with the change; "
                             "cargo test --offline --test zz_seeded_demo with and without the change",
                             ("scratch worktree with patch.diff applied + a copy of /verif whose harness builds against it; "
                              if res.get("mode") else "git -C /repo apply patch.diff; ")
                             + "; ".join("./check %s --tier quick" % c for c in checks)
                             + ("" if res.get("mode") else "; git -C /repo checkout -- .")],
            "checks": res["checks"], "caught_by": res.get("caught_by", [])}
    with open(os.path.join(d, "meta.json"), "w") as f:
        json.dump(meta, f, indent=1)
    return res


if __name__ == "__main__":
    r = main()
    print(json.dumps({k: v for k, v in r.items() if k not in ("demo_output_with_change", "existing_tests_output")}, indent=1))
