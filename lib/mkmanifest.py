#!/usr/bin/env python3
"""regenerate MANIFEST.json from the table below (kept in one place so it is always valid)"""
import json, os, subprocess
VERIF = os.path.dirname(os.path.dirname(os.path.abspath(__file__)))
SESS = ("Explicit TLA+ specification of the manual-level abstract machine (BasicMachine and the modules it extends). "
        "TLC model-checks the specification's own invariants / action properties over a bounded space and enumerates "
        "behaviours as sessions; each session is executed by the real interpreter and TLC (TraceMachine) decides whether the "
        "recorded trace (every response and a state probe after every command) is a behaviour of the specification. "
        "A second, implementation-level TLA+ module (BasicVM: code generator, linker, program memory, stack machine, "
        "transcribed from the source) is model-checked by TLC to refine the abstract machine on bounded spaces and is bound "
        "to the code opcode by opcode and execute(1) by execute(1); differences there are reported as drift of that model, "
        "never as violations.")
NOTE_SESS = ("Exhaustive only within the stated constants of the .cfg files; beyond them seeded random sessions. Trusted: the "
             "harness renderer AST->text, the probe projection, TLC. Floating-point content is specified only on short "
             "dyadic rationals (types everywhere); sessions leaving that domain are discarded and counted.")
CHECKS = {
 "C01": ("model_checking", SESS, "DESIGN.md I.2 and section 5 C01", "TLA+ spec + TLC bounded program space, spec-to-impl sessions validated by TLC trace validation"),
 "C03": ("model_checking", "Explicit implementation-shaped TLA+ model of Runtime's run states and of the terminal's calling protocol (RuntimeShell). TLC checks ProtocolSafe, CacheCoherent and the liveness property Converges (after one interrupt and no further input the prompt is reached, weak fairness of execute). The harness drives the real Runtime through the protocol with menu sequences, every short string over the lexical alphabet, byte / token soup and damaged programs, interrupts, replies and live listing snapshots, recording every API call with its event and a state probe; TLC (TraceShell) decides whether each call trace is a behaviour of the model; a caught panic or a call that does not return within the watchdog has no counterpart.", "DESIGN.md I.2 and section 5 C03", "TLA+ shell model + TLC safety and liveness; implementation call traces validated by TLC trace validation"),
 "C04": ("model_checking", SESS, "DESIGN.md I.2 and section 5 C04", "TLA+ spec + TLC state graph of edit histories, TLC trace validation"),
 "C05": ("model_checking", "Explicit TLA+ model of the scanner and lister (BasicLex: Lex, ShowL, Meaning). TLC enumerates every string up to the bound over the lexically significant alphabet, checks ModelRoundTrip on the model, and prints each string with the model's tokens and listed text; the harness feeds each to the real lexer / lister / parser and checks the property's own relations (same number, same parse or rejected in both, fixed point for lines that parse, literals preserved) and counts model/implementation divergence separately.", "DESIGN.md I.2 and section 5 C05", "TLA+ model scanner + TLC exhaustive enumeration of short strings, spec-to-implementation replay with relational oracle"),
 "C06": ("model_checking", SESS, "DESIGN.md I.2 and section 5 C06", "TLA+ spec + TLC state graph of the variable store, TLC trace validation with full store probe"),
 "C08": ("model_checking", "TLC enumerates the whole bounded operand grid on the TLA+ value specification (BasicValues), checks the arithmetic laws on the specification itself, and every enumerated case is replayed against the real VM and compared with the specified value or error code.", "DESIGN.md I.2 and section 5 C08", "TLA+ spec + TLC enumeration, spec-to-implementation replay"),
 "C09": ("model_checking", SESS, "DESIGN.md I.2 and section 5 C09", "TLA+ spec + TLC bounded program space (DATA placements), TLC trace validation"),
 "C10": ("model_checking", SESS, "DESIGN.md I.2 and section 5 C10", "TLA+ spec + TLC bounded program space (user functions), TLC trace validation"),
 "C11": ("model_checking", SESS, "DESIGN.md I.2 and section 5 C11", "TLA+ spec + TLC bounded program space (print lists), TLC trace validation"),
 "C12": ("model_checking", SESS, "DESIGN.md I.2 and section 5 C12", "TLA+ spec + TLC action properties RunIsFresh/ClearIsInit/NewIsEmpty, TLC trace validation"),
 "C13": ("model_checking", SESS, "DESIGN.md I.2 and section 5 C13", "TLA+ spec + TLC InterruptTransparent; exhaustive interrupt sweep on the code validated by TLC trace validation"),
 "C16": ("model_checking", "The model scanner (BasicLex) reads the canonical lines of sampled programs; MC_C16 derives the spelling variants the manual allows (case, optional blanks, ? ' GO TO GO SUB =< => < >, optional LET, lower-case exponent / hex) and TLC checks SpellingSound on the model; every variant is fed to the real lexer / lister / parser (same listing, same AST as the canonical text) and whole sessions are re-typed in each spelling and trace-validated against the AST-level abstract machine (they run identically).", "DESIGN.md I.2 and section 5 C16", "TLA+ model scanner + TLC-derived spelling variants, spec-to-implementation replay + TLC trace validation"),
 "C17": ("model_checking", SESS, "DESIGN.md I.2 and section 5 C17", "TLA+ spec + TLC bounded INPUT x reply space, TLC trace validation"),
 "C02": ("model_checking", "TLC enumerates the operator x type matrix, all operator pairs in both groupings rendered with the minimal parentheses of the 13-level table, literal structures and assignments on the TLA+ value specification (BasicValues/BasicExpr), checks TypeLaw on it, and every case is replayed against the real interpreter comparing value, type and error code; seeded random expression trees inside programs are trace-validated.", "DESIGN.md I.2 and section 5 C02", "TLA+ spec + TLC enumeration of the expression grid, spec-to-implementation replay + TLC trace validation"),
 "C07": ("model_checking", "TLC enumerates every string function x argument combination of the grid on the TLA+ string operators (code-point sequences), checks the laws relating them on the specification, and every case is replayed against the real VM (value, type, error code, printed text); MID$ assignment over the same grid as trace-validated sessions.", "DESIGN.md I.2 and section 5 C07", "TLA+ spec + TLC enumeration, spec-to-implementation replay + TLC trace validation"),
 "C14": ("model_checking", SESS, "DESIGN.md I.2 and section 5 C14", "TLA+ spec (BasicRenum) + TLC RenumExact/RenumSound over referencing forms x argument triples, TLC trace validation incl. listed text"),
 "C15": ("model_checking", SESS, "DESIGN.md I.2 and section 5 C15", "TLA+ spec + TLC state graph of the program store (ListExact/DeleteExact/LineExact), TLC trace validation incl. listed text"),
 "C18": ("model_checking", SESS, "DESIGN.md I.2 and section 5 C18", "TLA+ spec + TLC StmtNeutral/PoolBounded; leak and pool-limit sessions validated by TLC trace validation (stack probe); PoolLimit (TLC, small limit) + PoolTrace: the variable pool stepped across the real limit, trace-validated"),
 "C19": ("model_checking", SESS, "DESIGN.md I.2 and section 5 C19", "TLA+ spec (BasicProg.Analyze with character ranges from BasicShow segments) + TLC DiagInside/NoRun, TLC trace validation of codes, lines, ranges, underlines"),
 "C20": ("model_checking", SESS, "DESIGN.md I.2 and section 5 C20", "TLA+ spec + TLC LayoutInvariant over layout transformations, TLC trace validation of both layouts"),
}
NOTES = {"C08": "Exhaustive over the stated grid only (all 65536 values for unary forms in the thorough tier, boundary grid for binary operators); harness renderer/comparator trusted."}
ALL = ["C%02d" % i for i in range(1, 21)]
NOTES["C03"] = ("The content of entered lines is opaque to the shell model: which inputs are tried is fuzzing inside the harness "
                "(exhaustive short strings, seeded soup); the model decides the verdict over the resulting call / state sequences. "
                "Watchdog 3 s per call; debug assertions off (release profile semantics).")
NOTES["C05"] = ("Exhaustive over strings up to the stated length / alphabet only; long lines are seeded mutations. The comparator "
                "(AST Debug text with column ranges removed) and the harness are trusted.")
NA_REASON = "check not built yet in this round (planned; see DESIGN.md section 5)"

def main():
    repo_hooks = subprocess.run(["git", "-C", "/repo", "log", "--format=%h %s"], stdout=subprocess.PIPE, text=True).stdout
    hook_commits = [l.split()[0] for l in repo_hooks.splitlines() if l.split(" ", 1)[1].startswith("verif hooks")]
    man = {
     "version": 1,
     "setup_cmd": "./check --setup",
     "hooks": {"guard": "basic_lang_verif",
               "enable": "RUSTFLAGS --cfg basic_lang_verif via /verif/harness/.cargo/config.toml (harness has a path dependency on /repo)",
               "baseline_off_cmd": "cd /repo && cargo test --workspace --no-fail-fast --offline",
               "source_commits": hook_commits[::-1], "add_only": True},
     "engines": [{"name": "tlc+bvh", "path": "/verif/check", "serves_properties": sorted(CHECKS),
                  "kind_free_text": "explicit TLA+ specification model-checked by TLC; TLC-enumerated behaviours replayed into the real interpreter by the Rust harness bvh; implementation traces validated by TLC"}],
     "checks": [], "not_applicable": [],
     "notes": "see DESIGN.md Part I (as built: I.2 how each property is decided, I.4 findings, I.5 false alarms corrected, I.6 "
              "seeded changes); all 20 properties are claimed, none is not_applicable; lines starting NOTE report drift of the "
              "implementation-level model and never change an exit code"}
    for pid in ALL:
        if pid in CHECKS:
            cat, text, ref, tech = CHECKS[pid]
            man["checks"].append({"property_id": pid, "quick_cmd": "./check %s --tier quick" % pid,
                "thorough_cmd": "./check %s --tier thorough" % pid, "evidence_file": "/verif/evidence/%s.json" % pid,
                "replay_cmd_template": "./check %s --replay {path}" % pid, "engine": "tlc+bvh",
                "level_claimed": {"category": cat, "text": text, "design_ref": ref},
                "level_note": NOTES.get(pid, NOTE_SESS), "technique": tech})
        else:
            man["not_applicable"].append({"property_id": pid, "reason": NA_REASON})
    with open(os.path.join(VERIF, "MANIFEST.json"), "w") as f:
        json.dump(man, f, indent=1)
        f.write("\n")

if __name__ == "__main__":
    main()
