#!/usr/bin/env python3
"""For every `fix:` commit of /repo: undo it in the working tree (git apply -R of its diff), run the check of the
property it was found by, require a VIOLATION, and restore /repo.  Writes /verif/seeded/reverts.json."""
import json, os, subprocess, sys, time
VERIF = os.path.dirname(os.path.dirname(os.path.abspath(__file__)))
known = json.load(open(os.path.join(VERIF, "known_findings.json")))["findings"]
only = sys.argv[1:]
out = {}
p_out = os.path.join(VERIF, "seeded", "reverts.json")
if os.path.exists(p_out):
    out = json.load(open(p_out))
def sh(cmd, **kw):
    r = subprocess.run(cmd, shell=True, stdout=subprocess.PIPE, stderr=subprocess.STDOUT, text=True, **kw)
    return r.returncode, r.stdout
for f in known:
    if f.get("status") != "fixed":
        continue
    if only and f["id"] not in only and f["property"] not in only:
        continue
    c = f["commit"]
    rc, st = sh("git -C /repo status --porcelain")
    assert st.strip() == "", st
    rc, o = sh("git -C /repo diff %s^ %s > /tmp/mut/revert.diff && git -C /repo apply -R /tmp/mut/revert.diff" % (c, c))
    if rc != 0:
        out[f["id"]] = {"commit": c, "property": f["property"], "error": "does not revert cleanly: " + o[-300:]}
        sh("git -C /repo checkout -- .")
        continue
    try:
        t0 = time.time()
        rc, o = sh("%s %s --tier quick" % (os.path.join(VERIF, "check"), f["property"]), cwd=VERIF, timeout=3600)
        viol = [l for l in o.splitlines() if l.startswith("VIOLATION")]
        why = [l.strip() for l in o.splitlines() if l.strip().startswith("why:")]
        out[f["id"]] = {"commit": c, "property": f["property"], "exit": rc, "violations": len(viol), "why": why[:1],
                        "wall_s": round(time.time() - t0, 1), "caught": rc == 1 and len(viol) > 0}
        print(f["id"], out[f["id"]]["caught"], rc, len(viol), flush=True)
    finally:
        sh("git -C /repo checkout -- .")
    os.makedirs(os.path.dirname(p_out), exist_ok=True)
    json.dump(out, open(p_out, "w"), indent=1)
# leave the evidence of the property checks as produced on the unchanged tree
