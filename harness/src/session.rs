//! The calling protocol of `term/mod.rs`, re-implemented around `Runtime` (the terminal
//! module is private to the binary), with panic capture and an opcode budget.
use crate::val::{string_to_cps, val_to_model};
use basic::mach::{Event, Runtime, Val, VerifProbe};
use serde_json::{json, Value};
use std::panic::{catch_unwind, AssertUnwindSafe};

#[derive(Debug, Clone)]
pub struct ErrInfo {
    pub code: u16,
    pub line: Option<u16>,
    pub col: (usize, usize),
    pub text: String,
}

#[derive(Debug, Clone)]
pub enum Ev {
    Print(String),
    Errors(Vec<ErrInfo>),
    Input(String, bool),
    List(String, Vec<(usize, usize)>),
    Stopped,
    Load(String),
    Run(String),
    Save(String),
    Cls,
    Inkey,
    Budget,
    Panic(String),
}

pub fn err_code(text: &str) -> u16 {
    // the error code is not public; recover it from the Display text via the table in error.rs
    const TABLE: &[(&str, u16)] = &[
        ("?BREAK", 0),
        ("?NEXT WITHOUT FOR", 1),
        ("?SYNTAX ERROR", 2),
        ("?RETURN WITHOUT GOSUB", 3),
        ("?OUT OF DATA", 4),
        ("?ILLEGAL FUNCTION CALL", 5),
        ("?OVERFLOW", 6),
        ("?OUT OF MEMORY", 7),
        ("?UNDEFINED LINE", 8),
        ("?SUBSCRIPT OUT OF RANGE", 9),
        ("?REDIMENSIONED ARRAY", 10),
        ("?DIVISION BY ZERO", 11),
        ("?ILLEGAL DIRECT", 12),
        ("?TYPE MISMATCH", 13),
        ("?OUT OF STRING SPACE", 14),
        ("?STRING TOO LONG", 15),
        ("?CAN'T CONTINUE", 17),
        ("?UNDEFINED USER FUNCTION", 18),
        ("?REDO FROM START", 21),
        ("?LINE BUFFER OVERFLOW", 23),
        ("?FOR WITHOUT NEXT", 26),
        ("?WHILE WITHOUT WEND", 29),
        ("?WEND WITHOUT WHILE", 30),
        ("?INTERNAL ERROR", 51),
        ("?FILE NOT FOUND", 53),
        ("?FILE ALREADY EXISTS", 58),
        ("?BAD FILE NAME", 64),
        ("?DIRECT STATEMENT IN FILE", 66),
    ];
    let mut best: Option<(usize, u16)> = None;
    for (p, c) in TABLE {
        if text.starts_with(p) && best.map_or(true, |(l, _)| p.len() > l) {
            best = Some((p.len(), *c));
        }
    }
    best.map(|b| b.1).unwrap_or(999)
}

fn convert(ev: Event) -> Option<Ev> {
    Some(match ev {
        Event::Running => return None,
        Event::Print(s) => Ev::Print(s),
        Event::Errors(errs) => Ev::Errors(
            errs.iter()
                .map(|e| {
                    let text = e.to_string();
                    let c = e.column();
                    ErrInfo {
                        code: e.verif_code(),
                        line: e.line_number(),
                        col: (c.start, c.end),
                        text,
                    }
                })
                .collect(),
        ),
        Event::Input(p, caps) => Ev::Input(p, caps),
        Event::List((s, cols)) => Ev::List(s, cols.iter().map(|c| (c.start, c.end)).collect()),
        Event::Stopped => Ev::Stopped,
        Event::Load(s) => Ev::Load(s),
        Event::Run(s) => Ev::Run(s),
        Event::Save(s) => Ev::Save(s),
        Event::Cls => Ev::Cls,
        Event::Inkey => Ev::Inkey,
    })
}

pub struct Session {
    pub rt: Runtime,
    pub quantum: usize,
    /// opcode budget for one drain
    pub budget: usize,
    pub dead: bool,
    pub steps: usize,
}

impl Session {
    pub fn new() -> Session {
        Session {
            rt: Runtime::default(),
            quantum: 5000,
            budget: 400_000,
            dead: false,
            steps: 0,
        }
    }

    /// one `execute(n)` under catch_unwind; None for `Running`
    pub fn step(&mut self, n: usize) -> Option<Ev> {
        if self.dead {
            return Some(Ev::Panic("dead".into()));
        }
        self.steps += n;
        let rt = &mut self.rt;
        match catch_unwind(AssertUnwindSafe(|| rt.execute(n))) {
            Ok(ev) => convert(ev),
            Err(p) => {
                self.dead = true;
                Some(Ev::Panic(panic_text(p)))
            }
        }
    }

    pub fn enter(&mut self, line: &str) -> Option<Ev> {
        if self.dead {
            return Some(Ev::Panic("dead".into()));
        }
        let rt = &mut self.rt;
        match catch_unwind(AssertUnwindSafe(|| {
            rt.enter(line);
        })) {
            Ok(()) => None,
            Err(p) => {
                self.dead = true;
                Some(Ev::Panic(panic_text(p)))
            }
        }
    }

    pub fn interrupt(&mut self) {
        if !self.dead {
            self.rt.interrupt();
        }
    }

    /// run until the interpreter waits for the user (Stopped / Input / Inkey / Load...),
    /// collecting every event; Budget if the opcode budget is exhausted.
    pub fn drain(&mut self) -> Vec<Ev> {
        let mut out = vec![];
        let mut used = 0usize;
        let mut polls = 0usize;
        loop {
            match self.step(self.quantum) {
                None => {
                    used += self.quantum;
                    if used > self.budget {
                        out.push(Ev::Budget);
                        return out;
                    }
                }
                Some(Ev::Inkey) => {
                    // a keyboard poll: no key is ever pressed in these sessions (a program that waits for
                    // a key runs into the budget)
                    polls += 1;
                    used += self.quantum.max(1000);
                    if polls > 200 || used > self.budget {
                        out.push(Ev::Budget);
                        return out;
                    }
                    if let Some(p) = self.enter("") {
                        out.push(p);
                        return out;
                    }
                }
                Some(ev) => {
                    let stop = matches!(
                        ev,
                        Ev::Stopped
                            | Ev::Input(..)
                            | Ev::Inkey
                            | Ev::Load(_)
                            | Ev::Run(_)
                            | Ev::Save(_)
                            | Ev::Panic(_)
                    );
                    out.push(ev);
                    if stop {
                        return out;
                    }
                    if out.len() > 100_000 {
                        out.push(Ev::Budget);
                        return out;
                    }
                }
            }
        }
    }

    pub fn probe(&self) -> VerifProbe {
        self.rt.verif_probe()
    }
}

fn panic_text(p: Box<dyn std::any::Any + Send>) -> String {
    if let Some(s) = p.downcast_ref::<&str>() {
        s.to_string()
    } else if let Some(s) = p.downcast_ref::<String>() {
        s.clone()
    } else {
        "panic".into()
    }
}

/// concatenated Print text of an event list
pub fn printed(evs: &[Ev]) -> String {
    let mut s = String::new();
    for e in evs {
        if let Ev::Print(p) = e {
            s.push_str(p);
        }
    }
    s
}

pub fn first_error(evs: &[Ev]) -> Option<ErrInfo> {
    for e in evs {
        if let Ev::Errors(v) = e {
            if let Some(x) = v.first() {
                return Some(x.clone());
            }
        }
    }
    None
}

pub fn panic_of(evs: &[Ev]) -> Option<String> {
    for e in evs {
        if let Ev::Panic(s) = e {
            return Some(s.clone());
        }
    }
    None
}

pub fn ev_json(e: &Ev) -> Value {
    match e {
        Ev::Print(s) => json!({"ev":"print","s":string_to_cps(s)}),
        Ev::Errors(v) => json!({"ev":"errors","errs": v.iter().map(|x| json!({
            "code": x.code, "line": x.line.map(|l| l as i64).unwrap_or(-1),
            "c0": x.col.0, "c1": x.col.1, "text": x.text})).collect::<Vec<_>>()}),
        Ev::Input(p, caps) => json!({"ev":"input","s":string_to_cps(p),"caps":caps}),
        Ev::List(s, cols) => json!({"ev":"list","s":string_to_cps(s),"text":s,
            "cols": cols.iter().map(|c| json!([c.0, c.1])).collect::<Vec<_>>()}),
        Ev::Stopped => json!({"ev":"stopped"}),
        Ev::Load(s) => json!({"ev":"load","name":s}),
        Ev::Run(s) => json!({"ev":"run","name":s}),
        Ev::Save(s) => json!({"ev":"save","name":s}),
        Ev::Cls => json!({"ev":"cls"}),
        Ev::Inkey => json!({"ev":"inkey"}),
        Ev::Budget => json!({"ev":"budget"}),
        Ev::Panic(s) => json!({"ev":"panic","text":s}),
    }
}

/// split a variable-store key ("A", "AB%", "A,1,2,A", "FNA.X") into its parts
pub fn split_key(key: &str) -> (String, Vec<i64>) {
    let parts: Vec<&str> = key.split(',').collect();
    if parts.len() >= 3 {
        let subs = parts[1..parts.len() - 1]
            .iter()
            .map(|s| s.parse::<i64>().unwrap_or(-1))
            .collect();
        (parts[0].to_string(), subs)
    } else {
        (key.to_string(), vec![])
    }
}

pub fn name_parts(name: &str) -> (String, String, String) {
    let (id, sfx) = match name.chars().last() {
        Some(c) if "%!#$".contains(c) => (&name[..name.len() - 1], c.to_string()),
        _ => (name, String::new()),
    };
    let l = id.chars().next().map(|c| c.to_string()).unwrap_or_default();
    (l, id.to_string(), sfx)
}

/// the observable projection of the interpreter state (DESIGN §4.1) as JSON, in the shape
/// the specification uses
pub fn probe_json(p: &VerifProbe) -> Value {
    // control frames, bottom-up: Return -> gosub frame; Next -> for frame (3 values below)
    let mut frames = vec![];
    let mut junk = 0usize;
    let st = &p.stack;
    let mut i = 0;
    while i < st.len() {
        match &st[i].0 {
            Val::Return(_) => {
                frames.push(json!({"k":"gosub","ln": st[i].1.map(|l| l as i64).unwrap_or(-1)}));
            }
            Val::Next(_) => {
                let name = if i >= 1 {
                    if let Val::String(s) = &st[i - 1].0 { s.to_string() } else { "?".into() }
                } else {
                    "?".into()
                };
                // the three values below a Next marker belong to the frame
                junk = junk.saturating_sub(3);
                let (l, id, sfx) = name_parts(&name);
                frames.push(json!({"k":"for","ln": st[i].1.map(|l| l as i64).unwrap_or(-1),
                    "l": l, "id": id, "sfx": sfx,
                    "lim": if i >= 3 { val_to_model(&st[i-3].0) } else { Value::Null },
                    "step": if i >= 2 { val_to_model(&st[i-2].0) } else { Value::Null }}));
            }
            _ => junk += 1,
        }
        i += 1;
    }
    let vars: Vec<Value> = p
        .vars
        .iter()
        .filter(|(k, _)| !k.contains('.'))
        .map(|(k, v)| {
            let (name, subs) = split_key(k);
            let (l, id, sfx) = name_parts(&name);
            json!({"l": l, "id": id, "sfx": sfx, "sub": subs, "v": val_to_model(v)})
        })
        .collect();
    let hidden = p.vars.iter().filter(|(k, _)| k.contains('.')).count();
    let dims: Vec<Value> = p
        .dims
        .iter()
        .map(|(k, b)| {
            let (_l, id, sfx) = name_parts(k);
            json!({"id": id, "sfx": sfx, "b": b})
        })
        .collect();
    let deft: String = p.types.iter().map(|c| *c as char).collect();
    json!({
        "state": p.state, "cont": p.cont, "dirty": p.dirty, "tron": p.tron,
        "col": p.print_col, "direct": p.pc >= p.entry_address, "entry0": p.entry_address == 0,
        "line_pc": p.line_pc.map(|l| l as i64).unwrap_or(-1),
        "line_prev": p.line_prev.map(|l| l as i64).unwrap_or(-1),
        "line_cont": p.line_cont.map(|l| l as i64).unwrap_or(-1),
        "frames": frames, "junk": junk, "depth": st.len(),
        "dptr": p.data_pos, "dlen": p.data_len, "clen": p.code_len,
        "ierrs": p.indirect_errors, "derrs": p.direct_errors,
        "fns": p.functions.iter().map(|(n, a)| json!({"id": n, "ar": a})).collect::<Vec<_>>(),
        "vars": vars, "nvars": p.vars.len(), "hidden": hidden, "dims": dims, "deft": deft,
    })
}
