//! Replay of "expr" cases: an environment, an expression, and the value / error the
//! specification prescribes.
use crate::render;
use crate::session::{first_error, panic_of, printed, Ev, Session};
use crate::val;
use basic::mach::Val;
use serde_json::{json, Value};

pub enum Outcome {
    Ok,
    Skip(&'static str),
    Fail(String),
}

fn run_line(s: &mut Session, line: &str) -> Vec<Ev> {
    if let Some(p) = s.enter(line) {
        return vec![p];
    }
    s.drain()
}

/// evaluate `PRINT <expr>;` one opcode at a time so that the value about to be printed
/// (with its type) can be read from the stack
fn eval_print(s: &mut Session, text: &str) -> (Option<Val>, Vec<Ev>) {
    let mut evs = vec![];
    if let Some(p) = s.enter(&format!("PRINT {};", text)) {
        return (None, vec![p]);
    }
    let mut top: Option<Val> = None;
    let mut seen: Option<Val> = None;
    let mut n = 0;
    loop {
        n += 1;
        if n > 200_000 {
            evs.push(Ev::Budget);
            break;
        }
        let before = s.rt.verif_probe();
        if before.state == "Running" {
            top = before.stack.last().map(|x| x.0.clone());
        }
        match s.step(1) {
            None => {}
            Some(ev) => {
                if let Ev::Print(_) = &ev {
                    if seen.is_none() && before.state == "Running" {
                        seen = top.clone();
                    }
                }
                let stop = matches!(ev, Ev::Stopped | Ev::Input(..) | Ev::Inkey | Ev::Panic(_));
                evs.push(ev);
                if stop {
                    break;
                }
            }
        }
    }
    (seen, evs)
}

pub fn check_error(exp: &Value, evs: &[Ev]) -> Result<(), String> {
    let want = exp["n"].as_i64().unwrap_or(-1);
    match first_error(evs) {
        None => Err(format!("expected error {} but none was reported; printed {:?}", want, printed(evs))),
        Some(e) => {
            if want == -1 {
                if e.code == 51 || e.code == 0 {
                    Err(format!("expected a BASIC error, got {}", e.text))
                } else {
                    Ok(())
                }
            } else if e.code as i64 == want {
                Ok(())
            } else {
                Err(format!("expected error code {} got {} ({})", want, e.code, e.text))
            }
        }
    }
}

pub fn run(case: &Value) -> (Outcome, Value) {
    let exp = &case["x"];
    let t = exp["t"].as_str().unwrap_or("?");
    if t == "?" {
        return (Outcome::Skip("out_of_model"), Value::Null);
    }
    let mut s = Session::new();
    s.drain();
    let mut lines = vec![];
    if let Some(pre) = case["pre"].as_array() {
        for l in pre {
            let line = l.as_str().unwrap_or("").to_string();
            let evs = run_line(&mut s, &line);
            lines.push(line);
            if let Some(p) = panic_of(&evs) {
                return (Outcome::Fail(format!("panic in setup: {}", p)), json!({"lines": lines}));
            }
        }
    }
    if let Some(env) = case["env"].as_array() {
        for b in env {
            let line = format!("{}={}", render::var_name(b), render::literal(&b["v"]));
            let evs = run_line(&mut s, &line);
            lines.push(line.clone());
            if let Some(p) = panic_of(&evs) {
                return (Outcome::Fail(format!("panic in setup: {}", p)), json!({"lines": lines}));
            }
            if let Some(e) = first_error(&evs) {
                return (
                    Outcome::Fail(format!("setup line {:?} failed: {}", line, e.text)),
                    json!({"lines": lines}),
                );
            }
        }
    }
    let text = render::expr(&case["e"]);
    let store = case["store"].as_bool().unwrap_or(false);
    let (got, evs): (Option<Val>, Vec<Ev>) = if store {
        let target = match case["target"].as_str() {
            Some(t) if !t.is_empty() => t.to_string(),
            _ => "A%".to_string(),
        };
        let line = format!("{}={}", target, text);
        lines.push(line.clone());
        let evs = run_line(&mut s, &line);
        let p = s.probe();
        // an unassigned (default-valued) variable occupies no slot: it reads as the default of
        // the type the specification expects
        let dflt = match t {
            "S" => Val::Single(0.0),
            "D" => Val::Double(0.0),
            "$" => Val::String("".into()),
            _ => Val::Integer(0),
        };
        let v = p
            .vars
            .iter()
            .find(|(k, _)| *k == target)
            .map(|(_, v)| v.clone())
            .unwrap_or(dflt);
        (Some(v), evs)
    } else {
        lines.push(format!("PRINT {};", text));
        eval_print(&mut s, &text)
    };
    let detail = json!({"lines": lines, "printed": printed(&evs),
        "error": first_error(&evs).map(|e| e.text),
        "value": got.as_ref().map(val::val_to_model)});
    if let Some(p) = panic_of(&evs) {
        return (Outcome::Fail(format!("panic: {}", p)), detail);
    }
    if evs.iter().any(|e| matches!(e, Ev::Budget)) {
        return (Outcome::Fail("did not finish within the opcode budget".into()), detail);
    }
    if t == "E" {
        return match check_error(exp, &evs) {
            Ok(()) => (Outcome::Ok, detail),
            Err(m) => (Outcome::Fail(m), detail),
        };
    }
    if let Some(e) = first_error(&evs) {
        return (Outcome::Fail(format!("unexpected error: {}", e.text)), detail);
    }
    let got = match got {
        Some(v) => v,
        None => return (Outcome::Fail("no value observed".into()), detail),
    };
    if let Err(m) = val::matches(exp, &got) {
        return (Outcome::Fail(m), detail);
    }
    // printed text, when the specification fixes it
    if let Some(p) = case.get("p") {
        if case["hasp"].as_bool().unwrap_or(false) {
            let want = val::cps_to_string(p);
            let mut have = printed(&evs);
            if let Some(stripped) = have.strip_suffix("READY.\n") {
                have = stripped.to_string();
            }
            let have = have.strip_suffix('\n').unwrap_or(&have).to_string();
            if have != want {
                return (Outcome::Fail(format!("printed {:?}, expected {:?}", have, want)), detail);
            }
        }
    }
    (Outcome::Ok, detail)
}
