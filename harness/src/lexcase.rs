//! Replay of "lex" cases (C05 / C16): a source line as code points, optionally with the tokens
//! and listed text the specification's model scanner (BasicLex) prescribes.
//! Verdict: the property's own relations on the real lexer / lister / parser
//! (same number, same parse, fixed point, literals preserved); a mere difference between
//! the model scanner and the real one is reported as a divergence, never as a violation.
use crate::val::{cps_to_string, string_to_cps};
use basic::lang::token::{Literal, Token};
use basic::lang::{lex, Line};
use serde_json::{json, Value};
use std::panic::{catch_unwind, AssertUnwindSafe};
use std::sync::mpsc;
use std::time::Duration;

pub enum Outcome {
    Ok,
    Diverge(String),
    Fail(String),
}

/// Debug text of an AST with every column range (a..b) removed
fn strip_columns(s: &str) -> String {
    let b = s.as_bytes();
    let mut out = String::with_capacity(s.len());
    let mut i = 0;
    while i < b.len() {
        if b[i].is_ascii_digit() && (i == 0 || !(b[i - 1].is_ascii_alphanumeric() || b[i - 1] == b'.')) {
            let mut j = i;
            while j < b.len() && b[j].is_ascii_digit() {
                j += 1;
            }
            if j + 1 < b.len() && b[j] == b'.' && b[j + 1] == b'.' {
                let mut k = j + 2;
                while k < b.len() && b[k].is_ascii_digit() {
                    k += 1;
                }
                if k > j + 2 {
                    out.push('_');
                    i = k;
                    continue;
                }
            }
        }
        out.push(b[i] as char);
        i += 1;
    }
    out
}

fn tok_json(t: &Token) -> Value {
    let mk = |k: &str, s: &str, t: &str, n: usize| json!({"k": k, "s": string_to_cps(s), "n": n, "t": t});
    match t {
        Token::Unknown(s) => mk("unk", s, "", 0),
        Token::Whitespace(n) => mk("ws", "", "", *n),
        Token::Literal(l) => match l {
            Literal::Single(s) => mk("num", s, "S", 0),
            Literal::Double(s) => mk("num", s, "D", 0),
            Literal::Integer(s) => mk("num", s, "I", 0),
            Literal::Hex(s) => mk("hex", s, "", 0),
            Literal::Octal(s) => mk("oct", s, "", 0),
            Literal::String(s) => mk("str", s, "", 0),
        },
        Token::Word(w) => mk("word", &w.to_string(), "", 0),
        Token::Operator(o) => mk("op", &o.to_string(), "", 0),
        Token::Ident(i) => mk("id", &i.to_string(), "", 0),
        Token::LParen => mk("p", "(", "", 0),
        Token::RParen => mk("p", ")", "", 0),
        Token::Comma => mk("p", ",", "", 0),
        Token::Colon => mk("p", ":", "", 0),
        Token::Semicolon => mk("p", ";", "", 0),
    }
}

/// string literals (outside remarks) in order, and the remark text: everything after the first
/// REM / ' token as listed, blanks at both ends aside
fn literals(toks: &[Token]) -> Vec<String> {
    use basic::lang::token::Word;
    let mut out = vec![];
    let mut i = 0;
    while i < toks.len() {
        match &toks[i] {
            Token::Literal(Literal::String(s)) => out.push(format!("S:{}", s)),
            Token::Word(Word::Rem1) | Token::Word(Word::Rem2) => {
                let rest: String = toks[i + 1..].iter().map(|t| t.to_string()).collect();
                out.push(format!("R:{}", rest.trim()));
                break;
            }
            _ => {}
        }
        i += 1;
    }
    out
}

struct Obs {
    num: Option<u16>,
    toks: Vec<Token>,
    text: String,
    num2: Option<u16>,
    toks2: Vec<Token>,
    text2: String,
    ast1: Result<String, String>,
    ast2: Result<String, String>,
    /// SAVE writes the listed text, LOAD reads it back with Listing::load_str: None = not applicable (no line
    /// number, empty, or longer than the line limit), Some(Ok(text it lists as after loading)) / Some(Err(message))
    loaded: Option<Result<String, String>>,
}

fn observe(src: String) -> Obs {
    let (num, toks) = lex(&src);
    let line = Line::new(&src);
    let text = line.to_string();
    let (num2, toks2) = lex(&text);
    let line2 = Line::new(&text);
    let text2 = line2.to_string();
    let ast1 = line.ast().map(|a| strip_columns(&format!("{:?}", a))).map_err(|e| e.to_string());
    let ast2 = line2.ast().map(|a| strip_columns(&format!("{:?}", a))).map_err(|e| e.to_string());
    let loaded = match num {
        Some(n) if !line.is_empty() && src.len() <= 1024 && text.len() <= 1024 => {
            let mut listing = basic::mach::Listing::default();
            Some(match listing.load_str(&text) {
                Ok(()) => Ok(listing.line(n as usize).map(|(t, _)| t).unwrap_or_default()),
                Err(e) => Err(e.to_string()),
            })
        }
        _ => None,
    };
    Obs { num, toks, text, num2, toks2, text2, ast1, ast2, loaded }
}

static HUNG: std::sync::atomic::AtomicUsize = std::sync::atomic::AtomicUsize::new(0);

pub fn run(case: &Value) -> (Outcome, Value) {
    let src = cps_to_string(&case["x"]);
    // every hang leaves a spinning thread behind: after a few, stop trying (the first ones are reported)
    if HUNG.load(std::sync::atomic::Ordering::Relaxed) >= 6 {
        return (Outcome::Ok, json!({"src": src, "skipped_after_hangs": true, "parses": false}));
    }
    // the scanner may loop forever on some inputs: run it on its own thread with a watchdog
    let (tx, rx) = mpsc::channel();
    let src2 = src.clone();
    std::thread::spawn(move || {
        let r = catch_unwind(AssertUnwindSafe(|| observe(src2)));
        let _ = tx.send(r);
    });
    let o = match rx.recv_timeout(Duration::from_millis(2000)) {
        Ok(Ok(o)) => o,
        Ok(Err(_)) => return (Outcome::Fail("panic while lexing / listing / parsing".into()), json!({"src": src})),
        Err(_) => {
            HUNG.fetch_add(1, std::sync::atomic::Ordering::Relaxed);
            return (Outcome::Fail("the scanner did not return within 2 s".into()), json!({"src": src}));
        }
    };
    let detail = json!({"src": src, "text": o.text, "text2": o.text2,
        "num": o.num.map(|n| n as i64).unwrap_or(-1),
        "parses": o.ast1.is_ok(), "parses2": o.ast2.is_ok(),
        "toks": o.toks.iter().map(tok_json).collect::<Vec<_>>()});
    // ---- the property's own relations
    if o.num2 != o.num {
        return (Outcome::Fail(format!("the listed text re-enters with line number {:?} instead of {:?}", o.num2, o.num)), detail);
    }
    match (&o.ast1, &o.ast2) {
        (Ok(a), Ok(b)) => {
            if a != b {
                return (Outcome::Fail(format!("the listed text parses to different statements: {} vs {}", a, b)), detail);
            }
            if o.text2 != o.text {
                return (Outcome::Fail(format!("the listed text of a line that parses is not a fixed point: {:?} lists again as {:?}", o.text, o.text2)), detail);
            }
            if literals(&o.toks) != literals(&o.toks2) {
                return (Outcome::Fail("string literals / remark text are not preserved by listing".into()), detail);
            }
        }
        (Ok(_), Err(e)) => {
            return (Outcome::Fail(format!("the line parses but its listed text {:?} is rejected: {}", o.text, e)), detail);
        }
        (Err(e), Ok(_)) => {
            return (Outcome::Fail(format!("the line is rejected ({}) but its listed text {:?} parses", e, o.text)), detail);
        }
        (Err(_), Err(_)) => {}
    }
    // ---- SAVE then LOAD: a line the prompt accepts and whose listed text is within the line limit loads again
    // as the same line
    match &o.loaded {
        Some(Err(e)) => {
            return (Outcome::Fail(format!("SAVE then LOAD: the listed text ({} bytes) of an accepted line is refused by LOAD: {}",
                o.text.len(), e)), detail);
        }
        Some(Ok(t)) if *t != o.text2 => {
            return (Outcome::Fail(format!("SAVE then LOAD: the line loads as {:?}, its listed text re-enters as {:?}", t, o.text2)), detail);
        }
        _ => {}
    }
    // ---- spelling variants (C16): the variant must list, parse and number like the canonical text
    if let Some(canon) = case.get("canon") {
        let c = observe(cps_to_string(canon));
        if c.num != o.num {
            return (Outcome::Fail("a spelling variant has another line number".into()), detail);
        }
        match (&c.ast1, &o.ast1) {
            (Ok(a), Ok(b)) if a == b => {}
            (Err(_), Err(_)) => {}
            _ => {
                return (Outcome::Fail(format!("a spelling variant parses differently: {:?} vs canonical {:?}", o.ast1, c.ast1)), detail);
            }
        }
        let want = case.get("lists").map(cps_to_string).unwrap_or(c.text.clone());
        if o.text != want {
            return (Outcome::Fail(format!("a spelling variant lists as {:?}, expected {:?}", o.text, want)), detail);
        }
    }
    // ---- letter case (C16; enabled by the C16 check): outside string literals and remarks the
    // upper-case spelling of the same text must list identically and parse alike
    if std::env::var("VERIF_LEX_CASECHECK").map_or(false, |v| v == "1")
        && !src.contains('"') && !src.contains('\'') && !src.to_ascii_uppercase().contains("REM") && !src.contains("DATA")
    {
        let up = src.to_ascii_uppercase();
        if up != src {
            let u = observe(up.clone());
            if u.text != o.text {
                return (Outcome::Fail(format!("letter case changes the listing: {:?} lists as {:?} but {:?} lists as {:?}",
                    src, o.text, up, u.text)), detail);
            }
            if u.ast1.is_ok() != o.ast1.is_ok() || (u.ast1.is_ok() && u.ast1 != o.ast1) {
                return (Outcome::Fail(format!("letter case changes the parse of {:?}", src)), detail);
            }
        }
    }
    // ---- conformance with the model scanner (divergence only)
    if let Some(mt) = case.get("mtext") {
        let want = cps_to_string(mt);
        if want != o.text {
            return (Outcome::Diverge(format!("model lists {:?}, implementation {:?}", want, o.text)), detail);
        }
        if let Some(mtoks) = case.get("mtoks") {
            let got: Vec<Value> = o.toks.iter().map(tok_json).collect();
            if mtoks.as_array().map_or(true, |a| *a != got) || case["mnum"].as_i64() != Some(o.num.map(|n| n as i64).unwrap_or(-1)) {
                return (Outcome::Diverge("model tokens differ from the implementation's".into()), detail);
            }
        }
    }
    (Outcome::Ok, detail)
}
