//! Model values (as emitted by the TLA+ specification) and their comparison with `Val`.
use basic::mach::Val;
use serde_json::{json, Value};

/// code points -> String (invalid scalars become U+FFFD; the spec never emits them)
pub fn cps_to_string(v: &Value) -> String {
    v.as_array()
        .map(|a| {
            a.iter()
                .map(|c| char::from_u32(c.as_u64().unwrap_or(0xFFFD) as u32).unwrap_or('\u{FFFD}'))
                .collect()
        })
        .unwrap_or_default()
}

pub fn string_to_cps(s: &str) -> Value {
    Value::Array(s.chars().map(|c| json!(c as u32)).collect())
}

/// dyadic n / 2^e as f64 (exact for |n| < 2^53)
pub fn dyadic(n: i64, e: i64) -> f64 {
    (n as f64) / (2f64).powi(e as i32)
}

/// f64 -> (n, e) with |n| < 2^24 and e <= 10 if exactly representable in the model
pub fn to_dyadic(x: f64) -> Option<(i64, i64)> {
    to_dyadic_max(x, 16_777_216.0)
}

/// the same with a bound on the mantissa (2^24 for Singles, 2^30 for Doubles: the specification's
/// exact domain, see BasicValues.MkF)
pub fn to_dyadic_max(x: f64, max: f64) -> Option<(i64, i64)> {
    if !x.is_finite() {
        return None;
    }
    if x == 0.0 {
        if x.is_sign_negative() {
            return None;
        }
        return Some((0, 0));
    }
    for e in 0..=10 {
        let scaled = x * (2f64).powi(e);
        if scaled.fract() == 0.0 {
            if scaled.abs() < max {
                return Some((scaled as i64, e as i64));
            }
            return None;
        }
    }
    None
}

/// `Val` -> model value JSON ([t,n,e,s,x]); inexact floats become x=false
pub fn val_to_model(v: &Val) -> Value {
    match v {
        Val::Integer(n) => json!({"t":"I","n":n,"e":0,"s":[],"x":true}),
        Val::Single(f) => match to_dyadic(*f as f64) {
            Some((n, e)) => json!({"t":"S","n":n,"e":e,"s":[],"x":true}),
            None => json!({"t":"S","n":0,"e":0,"s":[],"x":false}),
        },
        Val::Double(f) => match to_dyadic_max(*f, 1_073_741_824.0) {
            Some((n, e)) => json!({"t":"D","n":n,"e":e,"s":[],"x":true}),
            None => json!({"t":"D","n":0,"e":0,"s":[],"x":false}),
        },
        Val::String(s) => json!({"t":"$","n":0,"e":0,"s":string_to_cps(s),"x":true}),
        Val::Return(a) => json!({"t":"R","n":a,"e":0,"s":[],"x":true}),
        Val::Next(a) => json!({"t":"N","n":a,"e":0,"s":[],"x":true}),
    }
}

pub fn type_tag(v: &Val) -> &'static str {
    match v {
        Val::Integer(_) => "I",
        Val::Single(_) => "S",
        Val::Double(_) => "D",
        Val::String(_) => "$",
        Val::Return(_) => "R",
        Val::Next(_) => "N",
    }
}

/// Does the implementation value `got` equal the specified value `exp`?
/// Err(reason) on mismatch. An inexact expectation (x=false) constrains the type only.
pub fn matches(exp: &Value, got: &Val) -> Result<(), String> {
    let t = exp["t"].as_str().unwrap_or("");
    if t != type_tag(got) {
        return Err(format!("type: expected {} got {} ({:?})", t, type_tag(got), got));
    }
    if !exp["x"].as_bool().unwrap_or(false) {
        return Ok(());
    }
    let n = exp["n"].as_i64().unwrap_or(0);
    let e = exp["e"].as_i64().unwrap_or(0);
    match got {
        Val::Integer(g) => {
            if *g as i64 == n {
                Ok(())
            } else {
                Err(format!("value: expected {} got {}", n, g))
            }
        }
        Val::Single(g) => {
            if (*g as f64) == dyadic(n, e) && !(*g == 0.0 && g.is_sign_negative()) {
                Ok(())
            } else {
                Err(format!("value: expected {}/2^{} got {}", n, e, g))
            }
        }
        Val::Double(g) => {
            if *g == dyadic(n, e) && !(*g == 0.0 && g.is_sign_negative()) {
                Ok(())
            } else {
                Err(format!("value: expected {}/2^{} got {}", n, e, g))
            }
        }
        Val::String(g) => {
            let want = cps_to_string(&exp["s"]);
            if **g == *want {
                Ok(())
            } else {
                Err(format!("string: expected {:?} got {:?}", want, g))
            }
        }
        _ => Err("frame value".into()),
    }
}
