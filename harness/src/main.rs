mod drive;
mod exprcase;
mod fromtext;
mod fmtcase;
mod lexcase;
mod render;
mod session;
mod shell;
mod val;

use serde_json::{json, Value};
use std::io::{BufRead, Write};

/// bvh replay <cases.ndjson> <result.json> [--max-fail N]
/// Each input line is one JSON case emitted by TLC (R = case kind).
fn replay(args: &[String]) -> i32 {
    let file = std::fs::File::open(&args[0]).expect("cases file");
    let mut total = 0usize;
    let mut ok = 0usize;
    let mut skipped = 0usize;
    let mut nontrivial = 0usize;
    let mut fails: Vec<Value> = vec![];
    let mut samples: Vec<Value> = vec![];
    let mut kinds = std::collections::BTreeMap::<String, usize>::new();
    let mut diverged = 0usize;
    let mut divs: Vec<Value> = vec![];
    for line in std::io::BufReader::new(file).lines() {
        let line = line.expect("read");
        if line.trim().is_empty() {
            continue;
        }
        let case: Value = match serde_json::from_str(&line) {
            Ok(v) => v,
            Err(e) => {
                eprintln!("bad case line: {}", e);
                return 2;
            }
        };
        total += 1;
        let kind = case["R"].as_str().unwrap_or("?").to_string();
        *kinds.entry(kind.clone()).or_insert(0) += 1;
        if kind == "fmt" {
            match fmtcase::run(&case) {
                (fmtcase::Outcome::Ok, detail) => {
                    ok += 1;
                    if !case["hasp"].as_bool().unwrap_or(false) {
                        nontrivial += 1;
                    }
                    if samples.len() < 5 && total % 997 == 1 {
                        samples.push(json!({"case": case, "observed": detail}));
                    }
                }
                (fmtcase::Outcome::Fail(msg), detail) => {
                    if fails.len() < 2000 {
                        fails.push(json!({"case": case, "why": msg, "observed": detail}));
                    }
                }
            }
            continue;
        }
        if kind == "lex" {
            match lexcase::run(&case) {
                (lexcase::Outcome::Ok, detail) => {
                    ok += 1;
                    let nt = match case.get("changed") {
                        Some(c) => c.as_bool().unwrap_or(false),
                        None => detail["parses"].as_bool().unwrap_or(false),
                    };
                    if nt {
                        nontrivial += 1;
                    }
                    if samples.len() < 5 && total % 9973 == 1 {
                        samples.push(json!({"case": {"x": case["x"]}, "observed": detail}));
                    }
                }
                (lexcase::Outcome::Diverge(msg), detail) => {
                    ok += 1;
                    diverged += 1;
                    if divs.len() < 40 {
                        divs.push(json!({"why": msg, "observed": detail, "mtext": case["mtext"], "mtoks": case["mtoks"]}));
                    }
                }
                (lexcase::Outcome::Fail(msg), detail) => {
                    if fails.len() < 2000 {
                        fails.push(json!({"case": case, "why": msg, "observed": detail}));
                    }
                }
            }
            continue;
        }
        let (outcome, detail) = match kind.as_str() {
            "expr" => exprcase::run(&case),
            _ => {
                eprintln!("unknown case kind {}", kind);
                return 2;
            }
        };
        match outcome {
            exprcase::Outcome::Ok => {
                ok += 1;
                if case["nt"].as_bool().unwrap_or(false) {
                    nontrivial += 1;
                }
                if samples.len() < 5 && total % 997 == 1 {
                    samples.push(json!({"case": case, "observed": detail}));
                }
            }
            exprcase::Outcome::Skip(_) => skipped += 1,
            exprcase::Outcome::Fail(msg) => {
                if fails.len() < 2000 {
                    fails.push(json!({"case": case, "why": msg, "observed": detail}));
                }
            }
        }
    }
    let res = json!({"total": total, "ok": ok, "skipped": skipped, "failed": total - ok - skipped, "nontrivial": nontrivial,
        "kinds": kinds, "fails": fails, "samples": samples, "diverged": diverged, "divergences": divs});
    let mut f = std::fs::File::create(&args[1]).expect("result file");
    f.write_all(serde_json::to_string(&res).unwrap().as_bytes()).unwrap();
    0
}

/// bvh drive <sessions.ndjson> <trace.ndjson>
fn drive_cmd(args: &[String]) -> i32 {
    let file = std::fs::File::open(&args[0]).expect("sessions file");
    let mut out = std::io::BufWriter::new(std::fs::File::create(&args[1]).expect("trace file"));
    for line in std::io::BufReader::new(file).lines() {
        let line = line.expect("read");
        if line.trim().is_empty() {
            continue;
        }
        let case: Value = serde_json::from_str(&line).expect("session json");
        for case in drive::expand_sweep(&case) {
            let mut rec = drive::run_session(&case);
            if !case["sweep"].is_null() || case["id"].as_str().map_or(false, |s| s.contains('#')) {
                rec["case"] = case.clone();
            }
            out.write_all(serde_json::to_string(&rec).unwrap().as_bytes()).unwrap();
            out.write_all(b"\n").unwrap();
        }
    }
    0
}

/// bvh debug [steps]: lines from stdin are entered one by one; after each, up to `steps`
/// single opcodes are executed and every event and state change is printed
fn debug_cmd(args: &[String]) -> i32 {
    let steps: usize = args.get(0).and_then(|s| s.parse().ok()).unwrap_or(40);
    let mut s = session::Session::new();
    s.drain();
    for line in std::io::stdin().lock().lines() {
        let line = line.unwrap();
        println!("> {}", line);
        if let Some(ev) = s.enter(&line) {
            println!("   enter: {:?}", ev);
            continue;
        }
        for i in 0..steps {
            let p = s.probe();
            let ev = s.step(1);
            let q = s.probe();
            println!("   {:3} {}(pc={} entry={}) -> {}(pc={} entry={} cont={} depth={}) {:?}", i, p.state, p.pc, p.entry_address,
                     q.state, q.pc, q.entry_address, q.cont, q.stack.len(), ev);
            if matches!(ev, Some(session::Ev::Stopped) | Some(session::Ev::Input(..)) | Some(session::Ev::Panic(_))) {
                break;
            }
        }
    }
    0
}

fn main() {
    // panics inside the interpreter are data (caught per call); keep stderr quiet
    std::panic::set_hook(Box::new(|_| {}));
    let args: Vec<String> = std::env::args().collect();
    let code = match args.get(1).map(|s| s.as_str()) {
        Some("replay") => replay(&args[2..]),
        Some("drive") => drive_cmd(&args[2..]),
        Some("debug") => debug_cmd(&args[2..]),
        Some("shell") => shell::shell_cmd(&args[2..]),
        Some("render1") => {
            // one command per stdin line -> its source text
            for line in std::io::stdin().lock().lines() {
                let c: Value = serde_json::from_str(&line.unwrap()).expect("json");
                println!("{}", render::command_text(&c));
            }
            0
        }
        Some("render") => {
            // print the source text of every command of every session in a file
            let file = std::fs::File::open(&args[2]).expect("sessions file");
            for line in std::io::BufReader::new(file).lines() {
                let case: Value = serde_json::from_str(&line.unwrap()).expect("json");
                for c in case["cmds"].as_array().unwrap_or(&vec![]) {
                    println!("{}", render::command_text(c));
                }
            }
            0
        }
        _ => {
            eprintln!("usage: bvh replay <cases.ndjson> <result.json>");
            2
        }
    };
    std::process::exit(code);
}
