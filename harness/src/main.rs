mod drive;
mod exprcase;
mod fromtext;
mod fmtcase;
mod lexcase;
mod render;
mod session;
mod shell;
mod val;

use serde_json::{json, Value};
use std::io::{BufRead, Write};

/// bvh replay <cases.ndjson> <result.json> [--max-fail N]
/// Each input line is one JSON case emitted by TLC (R = case kind).
fn replay(args: &[String]) -> i32 {
    let file = std::fs::File::open(&args[0]).expect("cases file");
    let mut total = 0usize;
    let mut ok = 0usize;
    let mut skipped = 0usize;
    let mut nontrivial = 0usize;
    let mut fails: Vec<Value> = vec![];
    let mut samples: Vec<Value> = vec![];
    let mut kinds = std::collections::BTreeMap::<String, usize>::new();
    let mut diverged = 0usize;
    let mut divs: Vec<Value> = vec![];
    for line in std::io::BufReader::new(file).lines() {
        let line = line.expect("read");
        if line.trim().is_empty() {
            continue;
        }
        let case: Value = match serde_json::from_str(&line) {
            Ok(v) => v,
            Err(e) => {
                eprintln!("bad case line: {}", e);
                return 2;
            }
        };
        total += 1;
        let kind = case["R"].as_str().unwrap_or("?").to_string();
        *kinds.entry(kind.clone()).or_insert(0) += 1;
        if kind == "fmt" {
            match fmtcase::run(&case) {
                (fmtcase::Outcome::Ok, detail) => {
                    ok += 1;
                    if !case["hasp"].as_bool().unwrap_or(false) {
                        nontrivial += 1;
                    }
                    if samples.len() < 5 && total % 997 == 1 {
                        samples.push(json!({"case": case, "observed": detail}));
                    }
                }
                (fmtcase::Outcome::Fail(msg), detail) => {
                    if fails.len() < 2000 {
                        fails.push(json!({"case": case, "why": msg, "observed": detail}));
                    }
                }
            }
            continue;
        }
        if kind == "lex" {
            match lexcase::run(&case) {
                (lexcase::Outcome::Ok, detail) => {
                    ok += 1;
                    let nt = match case.get("changed") {
                        Some(c) => c.as_bool().unwrap_or(false),
                        None => detail["parses"].as_bool().unwrap_or(false),
                    };
                    if nt {
                        nontrivial += 1;
                    }
                    if samples.len() < 5 && total % 9973 == 1 {
                        samples.push(json!({"case": {"x": case["x"]}, "observed": detail}));
                    }
                }
                (lexcase::Outcome::Diverge(msg), detail) => {
                    ok += 1;
                    diverged += 1;
                    if divs.len() < 40 {
                        divs.push(json!({"why": msg, "observed": detail, "mtext": case["mtext"], "mtoks": case["mtoks"]}));
                    }
                }
                (lexcase::Outcome::Fail(msg), detail) => {
                    if fails.len() < 2000 {
                        fails.push(json!({"case": case, "why": msg, "observed": detail}));
                    }
                }
            }
            continue;
        }
        let (outcome, detail) = match kind.as_str() {
            "expr" => exprcase::run(&case),
            _ => {
                eprintln!("unknown case kind {}", kind);
                return 2;
            }
        };
        match outcome {
            exprcase::Outcome::Ok => {
                ok += 1;
                if case["nt"].as_bool().unwrap_or(false) {
                    nontrivial += 1;
                }
                if samples.len() < 5 && total % 997 == 1 {
                    samples.push(json!({"case": case, "observed": detail}));
                }
            }
            exprcase::Outcome::Skip(_) => skipped += 1,
            exprcase::Outcome::Fail(msg) => {
                if fails.len() < 2000 {
                    fails.push(json!({"case": case, "why": msg, "observed": detail}));
                }
            }
        }
    }
    let res = json!({"total": total, "ok": ok, "skipped": skipped, "failed": total - ok - skipped, "nontrivial": nontrivial,
        "kinds": kinds, "fails": fails, "samples": samples, "diverged": diverged, "divergences": divs});
    let mut f = std::fs::File::create(&args[1]).expect("result file");
    f.write_all(serde_json::to_string(&res).unwrap().as_bytes()).unwrap();
    0
}

/// bvh drive <sessions.ndjson> <trace.ndjson>
fn drive_cmd(args: &[String]) -> i32 {
    let file = std::fs::File::open(&args[0]).expect("sessions file");
    let mut out = std::io::BufWriter::new(std::fs::File::create(&args[1]).expect("trace file"));
    for line in std::io::BufReader::new(file).lines() {
        let line = line.expect("read");
        if line.trim().is_empty() {
            continue;
        }
        let case: Value = serde_json::from_str(&line).expect("session json");
        for case in drive::expand_sweep(&case) {
            let mut rec = drive::run_session(&case);
            if !case["sweep"].is_null() || case["id"].as_str().map_or(false, |s| s.contains('#')) {
                rec["case"] = case.clone();
            }
            out.write_all(serde_json::to_string(&rec).unwrap().as_bytes()).unwrap();
            out.write_all(b"\n").unwrap();
        }
    }
    0
}

/// bvh code <sessions.ndjson> <out.ndjson> [max_steps]
/// Every command of every session is delivered to a fresh interpreter and executed one `execute(1)`
/// at a time.  Output per session: the commands in the parser's normal form (its own AST mapped to
/// the specification's shapes; replies and interrupts as they are), each with
///   ops / data / daddr  (direct commands) the linked code as the interpreter disassembles it,
///   vm                  (pc, stack depth, run state, print column, DATA pointer, number of stored
///                       variables) after every single execute(1) until it waits,
///   intat               the number of steps after which an interrupt was delivered (-1: none).
/// A session is cut at the first command that cannot be expressed or does not come to wait
/// within max_steps.
fn code_cmd(args: &[String]) -> i32 {
    use crate::val::string_to_cps;
    let file = std::fs::File::open(&args[0]).expect("sessions file");
    let mut out = std::io::BufWriter::new(std::fs::File::create(&args[1]).expect("out file"));
    let max_steps: usize = args.get(2).and_then(|s| s.parse().ok()).unwrap_or(400);
    for line in std::io::BufReader::new(file).lines() {
        let line = line.expect("read");
        if line.trim().is_empty() {
            continue;
        }
        let case0: Value = serde_json::from_str(&line).expect("session json");
        for case in drive::expand_sweep(&case0) {
        let mut s = session::Session::new();
        s.drain();
        let mut cmds: Vec<Value> = vec![];
        let mut why = String::new();
        let mut ndirect = 0usize;
        for c in case["cmds"].as_array().unwrap_or(&vec![]) {
            let k0 = c["k"].as_str().unwrap_or("");
            let waiting = s.probe().state == "Input";
            let mut nf: Value;
            let mut text = String::new();
            match k0 {
                "int" => nf = json!({"k": "int"}),
                "reply" | "line" | "direct" | "text" => {
                    text = match c["text"].as_str() {
                        Some(t) => t.to_string(),
                        None => render::command_text(c),
                    };
                    if k0 == "reply" || (k0 == "text" && waiting) {
                        if !waiting {
                            why = "reply while not waiting".into();
                            break;
                        }
                        nf = json!({"k": "reply", "s": string_to_cps(&text)});
                    } else {
                        if waiting {
                            why = "line while waiting for a reply".into();
                            break;
                        }
                        match fromtext::command(&text) {
                            Some(v) => nf = v,
                            None => {
                                why = format!("not expressible: {}", text);
                                break;
                            }
                        }
                    }
                }
                _ => {
                    why = format!("command kind {}", k0);
                    break;
                }
            }
            let kind = nf["k"].as_str().unwrap_or("").to_string();
            if kind == "int" {
                s.interrupt();
            } else if s.enter(&text).is_some() {
                why = "panic".into();
                break;
            }
            if kind == "direct" {
                ndirect += 1;
                let (ops, data, daddr) = s.rt.verif_code();
                nf["ops"] = json!(ops);
                nf["data"] = json!(data.iter().map(val::val_to_model).collect::<Vec<Value>>());
                nf["daddr"] = json!(daddr);
            }
            let mut vm: Vec<Value> = vec![];
            let mut intat: i64 = -1;
            let mut complete = kind == "line";
            if kind != "line" {
                let want = c["int_after"].as_u64();
                for n in 0..max_steps {
                    if want == Some(n as u64) && n > 0 {
                        let st = s.probe().state;
                        if st == "Running" || st == "InputRunning" {
                            s.interrupt();
                            intat = n as i64;
                        }
                    }
                    let ev = s.step(1);
                    let p = s.probe();
                    vm.push(json!([p.pc, p.stack.len(), p.state, p.print_col, p.data_pos, p.vars.len()]));
                    if matches!(ev, Some(session::Ev::Stopped) | Some(session::Ev::Input(..)) | Some(session::Ev::Panic(_))
                        | Some(session::Ev::Inkey) | Some(session::Ev::Load(_)) | Some(session::Ev::Run(_)) | Some(session::Ev::Save(_))) {
                        complete = matches!(ev, Some(session::Ev::Stopped) | Some(session::Ev::Input(..)));
                        break;
                    }
                }
            }
            nf["vm"] = json!(vm);
            nf["intat"] = json!(intat);
            cmds.push(nf);
            if !complete {
                why = "did not come to wait within the bound".into();
                break;
            }
        }
        let rec = json!({"id": case["id"], "ok": ndirect > 0, "cmds": cmds, "cut": why});
        out.write_all(serde_json::to_string(&rec).unwrap().as_bytes()).unwrap();
        out.write_all(b"\n").unwrap();
        }
    }
    0
}

/// bvh debug [steps]: lines from stdin are entered one by one; after each, up to `steps`
/// single opcodes are executed and every event and state change is printed
fn debug_cmd(args: &[String]) -> i32 {
    let steps: usize = args.get(0).and_then(|s| s.parse().ok()).unwrap_or(40);
    let mut s = session::Session::new();
    s.drain();
    for line in std::io::stdin().lock().lines() {
        let line = line.unwrap();
        println!("> {}", line);
        if let Some(ev) = s.enter(&line) {
            println!("   enter: {:?}", ev);
            continue;
        }
        for i in 0..steps {
            let p = s.probe();
            let ev = s.step(1);
            let q = s.probe();
            println!("   {:3} {}(pc={} entry={}) -> {}(pc={} entry={} cont={} depth={}) {:?}", i, p.state, p.pc, p.entry_address,
                     q.state, q.pc, q.entry_address, q.cont, q.stack.len(), ev);
            if matches!(ev, Some(session::Ev::Stopped) | Some(session::Ev::Input(..)) | Some(session::Ev::Panic(_))) {
                break;
            }
        }
    }
    0
}

fn main() {
    // panics inside the interpreter are data (caught per call); keep stderr quiet
    std::panic::set_hook(Box::new(|_| {}));
    let args: Vec<String> = std::env::args().collect();
    let code = match args.get(1).map(|s| s.as_str()) {
        Some("replay") => replay(&args[2..]),
        Some("drive") => drive_cmd(&args[2..]),
        Some("debug") => debug_cmd(&args[2..]),
        Some("code") => code_cmd(&args[2..]),
        Some("shell") => shell::shell_cmd(&args[2..]),
        Some("render1") => {
            // one command per stdin line -> its source text
            for line in std::io::stdin().lock().lines() {
                let c: Value = serde_json::from_str(&line.unwrap()).expect("json");
                println!("{}", render::command_text(&c));
            }
            0
        }
        Some("render") => {
            // print the source text of every command of every session in a file
            let file = std::fs::File::open(&args[2]).expect("sessions file");
            for line in std::io::BufReader::new(file).lines() {
                let case: Value = serde_json::from_str(&line.unwrap()).expect("json");
                for c in case["cmds"].as_array().unwrap_or(&vec![]) {
                    println!("{}", render::command_text(c));
                }
            }
            0
        }
        _ => {
            eprintln!("usage: bvh replay <cases.ndjson> <result.json>");
            2
        }
    };
    std::process::exit(code);
}
