//! AST (JSON) -> BASIC source text, in the canonical listing style of the interpreter
//! (upper case, one blank between word-like neighbours, none elsewhere).
//! The renderer never adds parentheses: grouping is explicit in the AST ("par" nodes).
use crate::val::cps_to_string;
use serde_json::Value;

fn decimal(n: i64, e: i64) -> String {
    // exact decimal expansion of |n| / 2^e
    let mut num: u128 = n.unsigned_abs() as u128;
    for _ in 0..e {
        num *= 5;
    }
    let mut s = num.to_string();
    if e > 0 {
        let e = e as usize;
        while s.len() <= e {
            s.insert(0, '0');
        }
        s.insert(s.len() - e, '.');
    }
    s
}

/// literal text for a model value; negative numbers get a leading '-' (unary minus)
pub fn literal(v: &Value) -> String {
    if let Some(txt) = v.get("txt").and_then(|t| t.as_str()) {
        return txt.to_string();
    }
    let t = v["t"].as_str().unwrap_or("");
    let n = v["n"].as_i64().unwrap_or(0);
    let e = v["e"].as_i64().unwrap_or(0);
    match t {
        "I" => {
            if n == -32768 {
                "(-32767-1)".to_string()
            } else {
                n.to_string()
            }
        }
        "S" | "D" => {
            let sfx = if t == "S" { "!" } else { "#" };
            let body = decimal(n, e);
            if n < 0 {
                format!("-{}{}", body, sfx)
            } else {
                format!("{}{}", body, sfx)
            }
        }
        "$" => format!("\"{}\"", cps_to_string(&v["s"])),
        _ => "?".to_string(),
    }
}

fn op_text(op: &str) -> &'static str {
    match op {
        "add" => "+",
        "sub" => "-",
        "mul" => "*",
        "div" => "/",
        "idiv" => "\\",
        "mod" => " MOD ",
        "pow" => "^",
        "eq" => "=",
        "ne" => "<>",
        "lt" => "<",
        "le" => "<=",
        "gt" => ">",
        "ge" => ">=",
        "and" => " AND ",
        "or" => " OR ",
        "xor" => " XOR ",
        "imp" => " IMP ",
        "eqv" => " EQV ",
        _ => "?",
    }
}

pub fn var_name(v: &Value) -> String {
    format!(
        "{}{}",
        v["id"].as_str().unwrap_or("?"),
        v["sfx"].as_str().unwrap_or("")
    )
}

pub fn expr(e: &Value) -> String {
    match e["k"].as_str().unwrap_or("") {
        "lit" => literal(&e["v"]),
        "par" => format!("({})", expr(&e["a"])),
        "pos" => "POS(0)".to_string(),
        "var" => var_name(e),
        "arr" => format!("{}({})", var_name(e), list(&e["sub"])),
        "un" => {
            let a = expr(&e["a"]);
            match e["op"].as_str().unwrap_or("") {
                "neg" => format!("-{}", a),
                "pos" => format!("+{}", a),
                "not" => format!("NOT {}", a),
                _ => "?".into(),
            }
        }
        "bin" => format!(
            "{}{}{}",
            expr(&e["a"]),
            op_text(e["op"].as_str().unwrap_or("")),
            expr(&e["b"])
        ),
        "call" => {
            let f = e["f"].as_str().unwrap_or("?");
            format!("{}({})", f, list(&e["args"]))
        }
        "fn" => format!("{}({})", e["id"].as_str().unwrap_or("?"), list(&e["args"])),
        _ => "?".into(),
    }
}

fn list(es: &Value) -> String {
    es.as_array()
        .map(|a| a.iter().map(expr).collect::<Vec<_>>().join(","))
        .unwrap_or_default()
}
