//! AST (JSON) -> BASIC source text, in the canonical listing style of the interpreter
//! (upper case, one blank between word-like neighbours, none elsewhere).
//! The renderer never adds parentheses: grouping is explicit in the AST ("par" nodes).
use crate::val::cps_to_string;
use serde_json::Value;

fn decimal(n: i64, e: i64) -> String {
    // exact decimal expansion of |n| / 2^e
    let mut num: u128 = n.unsigned_abs() as u128;
    for _ in 0..e {
        num *= 5;
    }
    let mut s = num.to_string();
    if e > 0 {
        let e = e as usize;
        while s.len() <= e {
            s.insert(0, '0');
        }
        s.insert(s.len() - e, '.');
    }
    s
}

/// literal text for a model value; negative numbers get a leading '-' (unary minus)
pub fn literal(v: &Value) -> String {
    if let Some(txt) = v.get("txt").and_then(|t| t.as_str()) {
        return txt.to_string();
    }
    let t = v["t"].as_str().unwrap_or("");
    let n = v["n"].as_i64().unwrap_or(0);
    let e = v["e"].as_i64().unwrap_or(0);
    match t {
        "I" => {
            if n == -32768 {
                "(-32767-1)".to_string()
            } else {
                n.to_string()
            }
        }
        "S" | "D" => {
            let sfx = if t == "S" { "!" } else { "#" };
            let body = decimal(n, e);
            if n < 0 {
                format!("-{}{}", body, sfx)
            } else {
                format!("{}{}", body, sfx)
            }
        }
        "$" => format!("\"{}\"", cps_to_string(&v["s"])),
        _ => "?".to_string(),
    }
}

fn op_text(op: &str) -> &'static str {
    match op {
        "add" => "+",
        "sub" => "-",
        "mul" => "*",
        "div" => "/",
        "idiv" => "\\",
        "mod" => " MOD ",
        "pow" => "^",
        "eq" => "=",
        "ne" => "<>",
        "lt" => "<",
        "le" => "<=",
        "gt" => ">",
        "ge" => ">=",
        "and" => " AND ",
        "or" => " OR ",
        "xor" => " XOR ",
        "imp" => " IMP ",
        "eqv" => " EQV ",
        _ => "?",
    }
}

pub fn var_name(v: &Value) -> String {
    format!(
        "{}{}",
        v["id"].as_str().unwrap_or("?"),
        v["sfx"].as_str().unwrap_or("")
    )
}

pub fn expr(e: &Value) -> String {
    match e["k"].as_str().unwrap_or("") {
        "lit" => literal(&e["v"]),
        "par" => format!("({})", expr(&e["a"])),
        "pos" => "POS(0)".to_string(),
        "var" => var_name(e),
        "arr" => format!("{}({})", var_name(e), list(&e["sub"])),
        "un" => {
            let a = expr(&e["a"]);
            match e["op"].as_str().unwrap_or("") {
                "neg" => format!("-{}", a),
                "pos" => format!("+{}", a),
                "not" => format!("NOT {}", a),
                _ => "?".into(),
            }
        }
        "bin" => format!(
            "{}{}{}",
            expr(&e["a"]),
            op_text(e["op"].as_str().unwrap_or("")),
            expr(&e["b"])
        ),
        "call" => {
            let f = e["f"].as_str().unwrap_or("?");
            if e["args"].as_array().map_or(true, |a| a.is_empty()) {
                f.to_string()
            } else {
                format!("{}({})", f, list(&e["args"]))
            }
        }
        "fn" => format!("{}({})", e["id"].as_str().unwrap_or("?"), list(&e["args"])),
        _ => "?".into(),
    }
}

fn list(es: &Value) -> String {
    es.as_array()
        .map(|a| a.iter().map(expr).collect::<Vec<_>>().join(","))
        .unwrap_or_default()
}

fn stmts(ss: &Value) -> String {
    ss.as_array()
        .map(|a| a.iter().map(stmt).collect::<Vec<_>>().join(":"))
        .unwrap_or_default()
}

fn num_list(ns: &Value) -> String {
    ns.as_array()
        .map(|a| a.iter().map(|n| n.as_i64().unwrap_or(0).to_string()).collect::<Vec<_>>().join(","))
        .unwrap_or_default()
}

fn range_text(s: &Value) -> String {
    // form: "all" | "one" | "from" | "to" | "range"
    let a = s["a"].as_i64().unwrap_or(0);
    let b = s["b"].as_i64().unwrap_or(65529);
    match s["form"].as_str().unwrap_or("range") {
        "all" => String::new(),
        "one" => format!(" {}", a),
        "from" => format!(" {}-", a),
        "to" => format!(" -{}", b),
        _ => format!(" {}-{}", a, b),
    }
}

fn is_single_goto(ss: &Value) -> Option<i64> {
    let a = ss.as_array()?;
    if a.len() == 1 && a[0]["k"] == "goto" {
        a[0]["n"].as_i64()
    } else {
        None
    }
}

pub fn stmt(s: &Value) -> String {
    let k = s["k"].as_str().unwrap_or("");
    match k {
        "let" => {
            let kw = if s["kw"].as_bool().unwrap_or(false) { "LET " } else { "" };
            format!("{}{}={}", kw, expr(&s["v"]), expr(&s["e"]))
        }
        "print" => {
            let kw = if s["q"].as_bool().unwrap_or(false) { "?" } else { "PRINT" };
            let mut out = String::from(kw);
            let mut prev_expr = false;
            let mut first = true;
            for it in s["items"].as_array().unwrap_or(&vec![]) {
                if let Some(sep) = it.get("sep").and_then(|x| x.as_str()) {
                    out.push_str(sep);
                    prev_expr = false;
                } else {
                    if first && kw == "PRINT" || prev_expr {
                        out.push(' ');
                    }
                    out.push_str(&expr(&it["e"]));
                    prev_expr = true;
                }
                first = false;
            }
            out
        }
        "goto" => format!("GOTO {}", s["n"]),
        "gosub" => format!("GOSUB {}", s["n"]),
        "return" => "RETURN".into(),
        "ongoto" => format!("ON {} GOTO {}", expr(&s["e"]), num_list(&s["ns"])),
        "ongosub" => format!("ON {} GOSUB {}", expr(&s["e"]), num_list(&s["ns"])),
        "if" => {
            let mut out = format!("IF {} ", expr(&s["c"]));
            let short = s["short"].as_bool().unwrap_or(false);
            match (short, is_single_goto(&s["th"])) {
                (true, Some(n)) => out.push_str(&format!("THEN {}", n)),
                _ => out.push_str(&format!("THEN {}", stmts(&s["th"]))),
            }
            if s["el"].as_array().map_or(false, |a| !a.is_empty()) {
                match (short, is_single_goto(&s["el"])) {
                    (true, Some(n)) => out.push_str(&format!(" ELSE {}", n)),
                    _ => out.push_str(&format!(" ELSE {}", stmts(&s["el"]))),
                }
            }
            out
        }
        "for" => {
            let mut out = format!("FOR {}={} TO {}", expr(&s["v"]), expr(&s["a"]), expr(&s["b"]));
            if !s["nostep"].as_bool().unwrap_or(false) {
                out.push_str(&format!(" STEP {}", expr(&s["c"])));
            }
            out
        }
        "next" => {
            let vs = s["vs"].as_array().cloned().unwrap_or_default();
            if vs.is_empty() {
                "NEXT".into()
            } else {
                format!("NEXT {}", vs.iter().map(expr).collect::<Vec<_>>().join(","))
            }
        }
        "while" => format!("WHILE {}", expr(&s["c"])),
        "wend" => "WEND".into(),
        "end" => "END".into(),
        "stop" => "STOP".into(),
        "rem" => {
            let t = if s.get("cp").is_some() { cps_to_string(&s["cp"]) } else { s["txt"].as_str().unwrap_or("").to_string() };
            if t.is_empty() { "REM".into() } else { format!("REM {}", t) }
        }
        "data" => format!(
            "DATA {}",
            s["vals"].as_array().map(|a| a.iter().map(literal).collect::<Vec<_>>().join(",")).unwrap_or_default()
        ),
        "read" => format!("READ {}", list(&s["vs"])),
        "restore" => {
            let n = s["n"].as_i64().unwrap_or(-1);
            if n < 0 { "RESTORE".into() } else { format!("RESTORE {}", n) }
        }
        "dim" => format!("DIM {}", list(&s["vs"])),
        "erase" => format!("ERASE {}", s["vs"].as_array().map(|a| a.iter().map(var_name).collect::<Vec<_>>().join(",")).unwrap_or_default()),
        "def" => format!(
            "DEF {}({})={}",
            s["id"].as_str().unwrap_or("FNX"),
            s["ps"].as_array().map(|a| a.iter().map(var_name).collect::<Vec<_>>().join(",")).unwrap_or_default(),
            expr(&s["e"])
        ),
        "deftype" => {
            let w = match s["t"].as_str().unwrap_or("S") {
                "I" => "DEFINT",
                "S" => "DEFSNG",
                "D" => "DEFDBL",
                _ => "DEFSTR",
            };
            let a = s["a"].as_str().unwrap_or("A");
            let b = s["b"].as_str().unwrap_or("A");
            if a == b { format!("{} {}", w, a) } else { format!("{} {}-{}", w, a, b) }
        }
        "swap" => format!("SWAP {},{}", expr(&s["v1"]), expr(&s["v2"])),
        "mid" => {
            if s["non"].as_bool().unwrap_or(false) {
                format!("MID$({},{})={}", expr(&s["v"]), expr(&s["p"]), expr(&s["e"]))
            } else {
                format!("MID$({},{},{})={}", expr(&s["v"]), expr(&s["p"]), expr(&s["n"]), expr(&s["e"]))
            }
        }
        "input" => {
            let mut out = String::from("INPUT");
            if !s["caps"].as_bool().unwrap_or(true) {
                out.push(',');
            } else {
                out.push(' ');
            }
            let prompt = cps_to_string(&s["prompt"]);
            if s["hasp"].as_bool().unwrap_or(false) {
                out.push_str(&format!("\"{}\";", prompt));
            }
            out.push_str(&list(&s["vs"]));
            out
        }
        "clear" => "CLEAR".into(),
        "run" => {
            let n = s["n"].as_i64().unwrap_or(-1);
            if n < 0 { "RUN".into() } else { format!("RUN {}", n) }
        }
        "cont" => "CONT".into(),
        "tron" => "TRON".into(),
        "troff" => "TROFF".into(),
        "new" => "NEW".into(),
        "cls" => "CLS".into(),
        "delete" => format!("DELETE{}", range_text(s)),
        "list" => format!("LIST{}", range_text(s)),
        "renum" => { let a = s["args"].as_str().unwrap_or(""); if a.is_empty() { "RENUM".into() } else { format!("RENUM {}", a) } }
        "bad" | "raw" => {
            if s.get("cp").is_some() { cps_to_string(&s["cp"]) } else { s["txt"].as_str().unwrap_or("?").to_string() }
        }
        _ => format!("REM unknown {}", k),
    }
}

/// the text of a command: a numbered line, or a direct line
pub fn command_text(c: &Value) -> String {
    match c["k"].as_str().unwrap_or("") {
        "line" => {
            let body = stmts(&c["stmts"]);
            if body.is_empty() {
                format!("{}", c["n"])
            } else {
                format!("{} {}", c["n"], body)
            }
        }
        "direct" => stmts(&c["stmts"]),
        "reply" => cps_to_string(&c["s"]),
        _ => String::new(),
    }
}
