//! Source text -> the AST (JSON) shape of the specification, through the interpreter's own parser.
//! Used to validate sessions that exist only as text (the repository's tests, the manual's examples)
//! against the abstract machine.  The parser is then part of the path under observation rather
//! than the oracle: the oracle is still the specification, fed with what the parser understood.
//! Anything the specification's AST cannot express yields None (the session is set aside).
use crate::val::{string_to_cps, val_to_model};
use basic::lang::ast::{Expression as E, Ident, Statement as S, Variable as V};
use basic::lang::Line;
use basic::mach::Val;
use serde_json::{json, Value};

const BUILTINS: &[&str] = &["ABS", "ASC", "ATN", "CDBL", "CHR$", "CINT", "COS", "CSNG", "DATE$", "EXP", "FIX", "HEX$", "INKEY$",
    "INSTR", "INT", "LEFT$", "LEN", "LOG", "MID$", "OCT$", "POS", "RIGHT$", "RND", "SGN", "SIN", "SPC", "SQR", "STR$",
    "STRING$", "TAB", "TAN", "TIME$", "VAL"];

fn ident(i: &Ident) -> (String, String) {
    let (s, sfx) = match i {
        Ident::Plain(s) => (s.to_string(), ""),
        Ident::String(s) => (s.to_string(), "$"),
        Ident::Single(s) => (s.to_string(), "!"),
        Ident::Double(s) => (s.to_string(), "#"),
        Ident::Integer(s) => (s.to_string(), "%"),
    };
    let name = if sfx.is_empty() { s } else { s[..s.len() - 1].to_string() };
    (name, sfx.to_string())
}

fn var(v: &V) -> Option<Value> {
    match v {
        V::Unary(_, i) => {
            let (id, sfx) = ident(i);
            let full = format!("{}{}", id, sfx);
            if full == "INKEY$" {
                return Some(json!({"k":"call","f":"INKEY$","args":[]}));
            }
            if BUILTINS.contains(&full.as_str()) {
                // a reserved name without arguments: outside the model
                return None;
            }
            let l = id.chars().next()?.to_string();
            Some(json!({"k":"var","l":l,"id":id,"sfx":sfx}))
        }
        V::Array(_, i, args) => {
            let (id, sfx) = ident(i);
            let full = format!("{}{}", id, sfx);
            if BUILTINS.contains(&full.as_str()) {
                return call(&full, args);
            }
            let a: Option<Vec<Value>> = args.iter().map(expr).collect();
            if id.starts_with("FN") {
                return Some(json!({"k":"fn","id":full,"args":a?}));
            }
            let l = id.chars().next()?.to_string();
            Some(json!({"k":"arr","l":l,"id":id,"sfx":sfx,"sub":a?}))
        }
    }
}

fn call(f: &str, args: &[E]) -> Option<Value> {
    match f {
        // POS(x): the argument is a dummy; only a numeric literal is modelled
        "POS" => {
            return match args {
                [E::Integer(..)] | [E::Single(..)] | [E::Double(..)] => Some(json!({"k":"pos"})),
                _ => None,
            }
        }
        "RND" | "DATE$" | "TIME$" | "INKEY$" => return None, // outside the model
        _ => {}
    }
    let a: Option<Vec<Value>> = args.iter().map(expr).collect();
    Some(json!({"k":"call","f":f,"args":a?}))
}

fn lit(v: Val) -> Value {
    json!({"k":"lit","v":val_to_model(&v)})
}

fn bin(op: &str, a: &E, b: &E) -> Option<Value> {
    Some(json!({"k":"bin","op":op,"a":grp(a)?,"b":grp(b)?}))
}

/// operands that are themselves operator applications are parenthesised (the parser's tree does
/// not keep parentheses; full parenthesisation preserves its grouping in the rendered text)
fn grp(e: &E) -> Option<Value> {
    let x = expr(e)?;
    if x["k"] == "bin" || x["k"] == "un" {
        Some(json!({"k":"par","a":x}))
    } else {
        Some(x)
    }
}

pub fn expr(e: &E) -> Option<Value> {
    Some(match e {
        E::Variable(v) => var(v)?,
        E::Single(_, n) => lit(Val::Single(*n)),
        E::Double(_, n) => lit(Val::Double(*n)),
        E::Integer(_, n) => lit(Val::Integer(*n)),
        E::String(_, s) => json!({"k":"lit","v":{"t":"$","n":0,"e":0,"s":string_to_cps(s),"x":true}}),
        E::Negation(_, a) => json!({"k":"un","op":"neg","a":grp(a)?}),
        E::Not(_, a) => json!({"k":"un","op":"not","a":grp(a)?}),
        E::Power(_, a, b) => bin("pow", a, b)?,
        E::Multiply(_, a, b) => bin("mul", a, b)?,
        E::Divide(_, a, b) => bin("div", a, b)?,
        E::DivideInt(_, a, b) => bin("idiv", a, b)?,
        E::Modulo(_, a, b) => bin("mod", a, b)?,
        E::Add(_, a, b) => bin("add", a, b)?,
        E::Subtract(_, a, b) => bin("sub", a, b)?,
        E::Equal(_, a, b) => bin("eq", a, b)?,
        E::NotEqual(_, a, b) => bin("ne", a, b)?,
        E::Less(_, a, b) => bin("lt", a, b)?,
        E::LessEqual(_, a, b) => bin("le", a, b)?,
        E::Greater(_, a, b) => bin("gt", a, b)?,
        E::GreaterEqual(_, a, b) => bin("ge", a, b)?,
        E::And(_, a, b) => bin("and", a, b)?,
        E::Or(_, a, b) => bin("or", a, b)?,
        E::Xor(_, a, b) => bin("xor", a, b)?,
        E::Imp(_, a, b) => bin("imp", a, b)?,
        E::Eqv(_, a, b) => bin("eqv", a, b)?,
    })
}

fn linenum(e: &E) -> Option<i64> {
    match e {
        E::Single(_, n) if n.fract() == 0.0 => Some(*n as i64),
        E::Double(_, n) if n.fract() == 0.0 => Some(*n as i64),
        E::Integer(_, n) => Some(*n as i64),
        _ => None,
    }
}

fn is_tab_zone(e: &E) -> bool {
    matches!(e, E::Variable(V::Array(_, Ident::String(s), a)) if &**s == "TAB" && a.len() == 1 && matches!(a[0], E::Integer(_, -14)))
}

fn range(k: &str, a: &E, b: &E) -> Option<Value> {
    let (x, y) = (linenum(a)?, linenum(b)?);
    let col = |e: &E| match e {
        E::Single(c, _) => c.clone(),
        _ => 0..1,
    };
    let (ea, eb) = (col(a).is_empty(), col(b).is_empty());
    let form = match (ea, eb) {
        (true, true) => "all",
        (false, true) if x == y => "one",
        (false, true) => "from",
        (true, false) => "to",
        (false, false) => "range",
    };
    Some(json!({"k":k,"a":x,"b":y,"form":form,"bare":form == "all"}))
}

fn vars(vs: &[V]) -> Option<Vec<Value>> {
    vs.iter().map(var).collect()
}

pub fn stmt(s: &S) -> Option<Value> {
    Some(match s {
        S::Clear(_) => json!({"k":"clear"}),
        S::Cls(_) => json!({"k":"cls"}),
        S::Cont(_) => json!({"k":"cont"}),
        S::End(_) => json!({"k":"end"}),
        S::New(_) => json!({"k":"new"}),
        S::Stop(_) => json!({"k":"stop"}),
        S::Troff(_) => json!({"k":"troff"}),
        S::Tron(_) => json!({"k":"tron"}),
        S::Return(_) => json!({"k":"return"}),
        S::Wend(_) => json!({"k":"wend"}),
        S::While(_, c) => json!({"k":"while","c":expr(c)?}),
        S::Data(_, es) => {
            let mut vals = vec![];
            for e in es {
                let x = expr(e)?;
                match x["k"].as_str()? {
                    "lit" => vals.push(x["v"].clone()),
                    "un" if x["op"] == "neg" => {
                        let inner = if x["a"]["k"] == "par" { x["a"]["a"].clone() } else { x["a"].clone() };
                        if inner["k"] != "lit" {
                            return None;
                        }
                        let mut v = inner["v"].clone();
                        v["n"] = json!(-v["n"].as_i64()?);
                        vals.push(v);
                    }
                    _ => return None,
                }
            }
            json!({"k":"data","vals":vals})
        }
        S::Def(_, name, ps, e) => {
            let id = match name {
                V::Unary(_, i) | V::Array(_, i, _) => {
                    let (id, sfx) = ident(i);
                    format!("{}{}", id, sfx)
                }
            };
            json!({"k":"def","id":id,"ps":vars(ps)?,"e":expr(e)?})
        }
        S::Defdbl(_, a, b) | S::Defint(_, a, b) | S::Defsng(_, a, b) | S::Defstr(_, a, b) => {
            let t = match s {
                S::Defdbl(..) => "D",
                S::Defint(..) => "I",
                S::Defsng(..) => "S",
                _ => "$",
            };
            let letter = |v: &V| match v {
                V::Unary(_, i) => Some(ident(i).0),
                _ => None,
            };
            json!({"k":"deftype","t":t,"a":letter(a)?,"b":letter(b)?})
        }
        S::Delete(_, a, b) => range("delete", a, b)?,
        S::List(_, a, b) => range("list", a, b)?,
        S::Dim(_, vs) => json!({"k":"dim","vs":vars(vs)?}),
        S::Erase(_, vs) => json!({"k":"erase","vs":vars(vs)?}),
        S::For(_, v, a, b, c) => json!({"k":"for","v":var(v)?,"a":expr(a)?,"b":expr(b)?,"c":expr(c)?,"nostep":false}),
        S::Gosub(_, e) => json!({"k":"gosub","n":linenum(e)?}),
        S::Goto(_, e) => json!({"k":"goto","n":linenum(e)?}),
        S::If(_, c, th, el) => {
            let t: Option<Vec<Value>> = th.iter().map(stmt).collect();
            let e: Option<Vec<Value>> = el.iter().map(stmt).collect();
            json!({"k":"if","c":expr(c)?,"th":t?,"el":e?,"short":false})
        }
        S::Input(_, caps, prompt, vs) => {
            let caps = !matches!(caps, E::Integer(_, 0));
            let (p, hasp) = match prompt {
                E::String(c, s) => (s.to_string(), !c.is_empty()),
                _ => return None,
            };
            json!({"k":"input","caps":caps,"prompt":string_to_cps(&p),"hasp":hasp,"vs":vars(vs)?})
        }
        S::Let(_, v, e) => json!({"k":"let","v":var(v)?,"e":expr(e)?,"kw":false}),
        S::Load(..) | S::Save(..) => return None,
        S::Mid(_, v, p, n, e) => json!({"k":"mid","v":var(v)?,"p":expr(p)?,"n":expr(n)?,"non":false,"e":expr(e)?}),
        S::Next(_, vs) => {
            // a NEXT without a name is parsed as one variable with an empty name
            let bare = matches!(&vs[..], [V::Unary(_, Ident::Plain(s))] if s.is_empty());
            if bare {
                json!({"k":"next","vs":[]})
            } else {
                json!({"k":"next","vs":vars(vs)?})
            }
        }
        S::OnGoto(_, e, ns) | S::OnGosub(_, e, ns) => {
            let k = if matches!(s, S::OnGoto(..)) { "ongoto" } else { "ongosub" };
            let n: Option<Vec<i64>> = ns.iter().map(linenum).collect();
            json!({"k":k,"e":expr(e)?,"ns":n?})
        }
        S::Print(_, es) => {
            let mut items = vec![];
            let mut newline = false;
            for (i, e) in es.iter().enumerate() {
                if let E::String(c, st) = e {
                    if &**st == "\n" && c.is_empty() && i == es.len() - 1 {
                        newline = true;
                        continue;
                    }
                }
                if is_tab_zone(e) {
                    items.push(json!({"sep": ","}));
                } else {
                    if matches!(items.last(), Some(x) if x.get("e").is_some()) {
                        items.push(json!({"sep": ";"}));
                    }
                    items.push(json!({"e": expr(e)?}));
                }
            }
            if !newline && matches!(items.last(), Some(x) if x.get("e").is_some()) {
                items.push(json!({"sep": ";"}));
            }
            json!({"k":"print","items":items,"q":false})
        }
        S::Read(_, vs) => json!({"k":"read","vs":vars(vs)?}),
        S::Renum(..) => return None,
        S::Restore(_, e) => json!({"k":"restore","n":linenum(e)?}),
        S::Run(_, e) => match e {
            E::String(..) => return None,
            _ => json!({"k":"run","n":linenum(e)?}),
        },
        S::Swap(_, a, b) => json!({"k":"swap","v1":var(a)?,"v2":var(b)?}),
    })
}

/// a typed line -> a command of the specification (None: not expressible).  The interpreter's own lexer and
/// parser run here: a panic in them is not the harness's (the caller enters the same text into the interpreter
/// under its own guard, where the panic is observed and reported)
pub fn command(text: &str) -> Option<Value> {
    match std::panic::catch_unwind(|| command_inner(text)) {
        Ok(v) => v,
        Err(_) => None,
    }
}

/// does the interpreter's lexer / parser panic on this text?
pub fn panics(text: &str) -> bool {
    std::panic::catch_unwind(|| command_inner(text)).is_err()
}

fn command_inner(text: &str) -> Option<Value> {
    if text.len() > 1024 {
        return None;
    }
    let line = Line::new(text);
    let ast = line.ast().ok()?;
    let stmts: Option<Vec<Value>> = ast.iter().map(stmt).collect();
    let mut stmts = stmts?;
    if stmts.is_empty() && !line.is_empty() {
        // a line holding only a remark: the parser yields no statement for it, the line exists all the same
        stmts.push(json!({"k":"rem","txt":"","cp":[]}));
    }
    Some(match line.number() {
        Some(n) => json!({"k":"line","n":n,"stmts":stmts}),
        None => {
            if stmts.is_empty() {
                return None;
            }
            json!({"k":"direct","stmts":stmts})
        }
    })
}
