//! Replay of "fmt" cases (C11): a Single or Double value n / 2^e chosen by TLC is stored in a typed
//! variable and printed; the text must have the documented shape (sign slot, trailing blank), must
//! be the text the specification gives where it fixes it, must read back to exactly the same
//! value of that type, and no decimal with fewer significant digits may read back to it.
use crate::session::{first_error, panic_of, printed, Session};
use crate::val::{cps_to_string, dyadic};
use serde_json::{json, Value};

pub enum Outcome {
    Ok,
    Fail(String),
}

fn decimal(n: i64, e: i64) -> String {
    let mut num: u128 = n.unsigned_abs() as u128;
    for _ in 0..e {
        num *= 5;
    }
    let mut s = num.to_string();
    if e > 0 {
        let e = e as usize;
        while s.len() <= e {
            s.insert(0, '0');
        }
        s.insert(s.len() - e, '.');
    }
    if n < 0 {
        s.insert(0, '-');
    }
    s
}

fn sig_digits(body: &str) -> usize {
    let mant = body.split(|c| c == 'E' || c == 'e').next().unwrap_or("");
    let ds: String = mant.chars().filter(|c| c.is_ascii_digit()).collect();
    let t = ds.trim_start_matches('0');
    t.trim_end_matches('0').len().max(1)
}

pub fn run(case: &Value) -> (Outcome, Value) {
    let t = case["t"].as_str().unwrap_or("S");
    let n = case["n"].as_i64().unwrap_or(0);
    let e = case["e"].as_i64().unwrap_or(0);
    let want = dyadic(n, e);
    let sfx = if t == "S" { "!" } else { "#" };
    let mut s = Session::new();
    s.drain();
    let lit = decimal(n, e);
    let line = if n < 0 { format!("V{}=0-{}{}", sfx, &lit[1..], sfx) } else { format!("V{}={}{}", sfx, lit, sfx) };
    s.enter(&line);
    let evs = s.drain();
    if let Some(p) = panic_of(&evs) {
        return (Outcome::Fail(format!("panic: {}", p)), json!({"line": line}));
    }
    if let Some(er) = first_error(&evs) {
        return (Outcome::Fail(format!("setup {:?} failed: {}", line, er.text)), json!({"line": line}));
    }
    s.enter(&format!("PRINT V{};", sfx));
    let evs = s.drain();
    let mut out = printed(&evs);
    if let Some(st) = out.strip_suffix("READY.\n") {
        out = st.to_string();
    }
    let out = out.strip_suffix('\n').unwrap_or(&out).to_string();
    let detail = json!({"line": line, "printed": out});
    let b = out.as_bytes();
    if b.len() < 3 || !(b[0] == b' ' || b[0] == b'-') || b[b.len() - 1] != b' ' {
        return (Outcome::Fail(format!("shape: {:?} has no sign slot / trailing blank", out)), detail);
    }
    if (b[0] == b'-') != (want < 0.0) {
        return (Outcome::Fail(format!("sign slot of {:?} does not match the value", out)), detail);
    }
    let body = out[..out.len() - 1].trim_start().to_string();
    // reads back to the same value of that type
    let back_ok = if t == "S" {
        body.parse::<f32>().map(|x| x == want as f32).unwrap_or(false)
    } else {
        body.parse::<f64>().map(|x| x == want).unwrap_or(false)
    };
    if !back_ok {
        return (Outcome::Fail(format!("{:?} does not read back to {}/2^{}", out, n, e)), detail);
    }
    // no shorter decimal reads back to it
    let d = sig_digits(&body);
    if d > 1 {
        let shorter = if t == "S" { format!("{:.*e}", d - 2, want as f32) } else { format!("{:.*e}", d - 2, want) };
        let same = if t == "S" {
            shorter.parse::<f32>().map(|x| x == want as f32).unwrap_or(false)
        } else {
            shorter.parse::<f64>().map(|x| x == want).unwrap_or(false)
        };
        if same {
            return (Outcome::Fail(format!("{:?} is not the shortest decimal: {} reads back too", out, shorter)), detail);
        }
    }
    // the exact text where the specification fixes it
    if case["hasp"].as_bool().unwrap_or(false) {
        let spec = cps_to_string(&case["p"]);
        if spec != out {
            return (Outcome::Fail(format!("printed {:?}, specified {:?}", out, spec)), detail);
        }
    }
    (Outcome::Ok, detail)
}
