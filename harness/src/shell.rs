//! C03: drive the real Runtime through the calling protocol of the terminal (src/term/mod.rs)
//! with arbitrary content, recording every API call with the event it returned and a probe of
//! the control state -- the trace TraceShell.tla validates.  A panic or a call that does not
//! return ends the trace with a record that matches no action of the specification.
use basic::lang::Line;
use basic::mach::{Event, Listing, Runtime};
use serde_json::{json, Value};
use std::panic::{catch_unwind, AssertUnwindSafe};
use std::sync::mpsc;
use std::time::Duration;

fn post(rt: &Runtime) -> Value {
    let p = rt.verif_probe();
    json!({"state": p.state, "cont": p.cont, "direct": p.pc >= p.entry_address, "entry0": p.entry_address == 0,
           "dirty": p.dirty, "colpos": p.print_col > 0, "ierr": p.indirect_errors > 0, "derr": p.direct_errors > 0})
}

fn classify(text: &str) -> &'static str {
    if text.len() > 1024 {
        return "long";
    }
    let line = Line::new(text);
    if line.is_direct() {
        if line.is_empty() { "empty" } else { "direct" }
    } else if line.is_empty() {
        "bare"
    } else {
        "numbered"
    }
}

fn ev_name(e: &Event) -> &'static str {
    match e {
        Event::Errors(_) => "Errors",
        Event::Input(..) => "Input",
        Event::Print(_) => "Print",
        Event::List(_) => "List",
        Event::Running => "Running",
        Event::Stopped => "Stopped",
        Event::Load(_) => "Load",
        Event::Run(_) => "Run",
        Event::Save(_) => "Save",
        Event::Cls => "Cls",
        Event::Inkey => "Inkey",
    }
}

/// run one scripted session, sending one record per API call
fn run_script(case: Value, tx: mpsc::Sender<Value>) {
    let mut rt = Runtime::default();
    let q = case["q"].as_u64().unwrap_or(5000) as usize;
    let maxexec = case["maxexec"].as_u64().unwrap_or(400) as usize;
    let mut snaps: Vec<Listing> = vec![];
    let mut ui = "exec";
    let mut pending_file: Option<(String, bool)> = None;
    // a guarded call: Err(text) on panic
    macro_rules! guarded {
        ($body:expr) => {
            match catch_unwind(AssertUnwindSafe(|| $body)) {
                Ok(v) => v,
                Err(p) => {
                    let text = if let Some(s) = p.downcast_ref::<&str>() { s.to_string() }
                               else if let Some(s) = p.downcast_ref::<String>() { s.clone() } else { "panic".into() };
                    let _ = tx.send(json!({"call": "panic", "text": text}));
                    return;
                }
            }
        };
    }
    // drain: execute until the terminal has to do something else
    let mut drain = |rt: &mut Runtime, ui: &mut &'static str, pending_file: &mut Option<(String, bool)>,
                     int_after: Option<usize>, tx: &mpsc::Sender<Value>| -> bool {
        let mut n = 0usize;
        while *ui == "exec" && n < maxexec {
            if Some(n) == int_after {
                rt.interrupt();
                let _ = tx.send(json!({"call": "interrupt", "post": post(rt)}));
            }
            n += 1;
            let _ = tx.send(json!({"call": "begin", "what": "execute"}));
            let e = match catch_unwind(AssertUnwindSafe(|| rt.execute(q))) {
                Ok(e) => e,
                Err(_) => {
                    let _ = tx.send(json!({"call": "panic", "text": "execute"}));
                    return false;
                }
            };
            let name = ev_name(&e);
            match &e {
                Event::Stopped => *ui = "line",
                Event::Input(..) => *ui = "reply",
                Event::Inkey => *ui = "key",
                Event::Load(s) => { *ui = "file"; *pending_file = Some((s.clone(), false)); }
                Event::Run(s) => { *ui = "file"; *pending_file = Some((s.clone(), true)); }
                Event::Save(s) => { *ui = "file"; *pending_file = Some((format!("save:{}", s), false)); }
                _ => {}
            }
            let _ = tx.send(json!({"call": "execute", "ret": name, "post": post(rt)}));
        }
        true
    };
    if !drain(&mut rt, &mut ui, &mut pending_file, None, &tx) {
        return;
    }
    for op in case["ops"].as_array().cloned().unwrap_or_default() {
        // serve a pending file request first
        if ui == "file" {
            let (name, run) = pending_file.take().unwrap_or_default();
            let text = case["files"].get(&name).and_then(|t| t.as_str()).map(|s| s.to_string());
            match text {
                Some(t) if !name.starts_with("save:") => {
                    let mut listing = Listing::default();
                    let _ = tx.send(json!({"call": "begin", "what": "load"}));
                    let ok = guarded!(t.lines().all(|l| listing.load_str(l).is_ok()));
                    if ok {
                        guarded!(rt.set_listing(listing, run));
                        let _ = tx.send(json!({"call": "set_listing", "run": run, "post": post(&rt)}));
                    } else {
                        let _ = tx.send(json!({"call": "file_failed", "post": post(&rt)}));
                    }
                }
                _ => {
                    if name.starts_with("save:") {
                        let _l = guarded!(rt.get_listing());
                    }
                    let _ = tx.send(json!({"call": "file_failed", "post": post(&rt)}));
                }
            }
            ui = "exec";
            if !drain(&mut rt, &mut ui, &mut pending_file, None, &tx) {
                return;
            }
        }
        match op["op"].as_str().unwrap_or("") {
            "line" => {
                let text = op["text"].as_str().unwrap_or("").to_string();
                if ui == "exec" {
                    continue; // still busy (maxexec reached): the terminal would not read a line now
                }
                let _ = tx.send(json!({"call": "begin", "what": "enter", "text": text}));
                // (classifying the line uses the interpreter's own lexer: a panic there is a panic of enter)
                let cls = if ui == "line" { guarded!(classify(&text)) } else { ui };
                guarded!(rt.enter(&text));
                ui = "exec";
                let _ = tx.send(json!({"call": "enter", "cls": cls, "post": post(&rt)}));
                let ia = op["int_after"].as_u64().map(|k| k as usize);
                if !drain(&mut rt, &mut ui, &mut pending_file, ia, &tx) {
                    return;
                }
            }
            "int" => {
                if ui == "exec" || ui == "reply" {
                    rt.interrupt();
                    ui = "exec";
                    let _ = tx.send(json!({"call": "interrupt", "post": post(&rt)}));
                    if !drain(&mut rt, &mut ui, &mut pending_file, None, &tx) {
                        return;
                    }
                }
            }
            "snap" => {
                if snaps.len() < 2 {
                    snaps.push(guarded!(rt.get_listing()));
                    let _ = tx.send(json!({"call": "snap", "post": post(&rt)}));
                }
            }
            "drop" => {
                if snaps.pop().is_some() {
                    let _ = tx.send(json!({"call": "drop", "post": post(&rt)}));
                }
            }
            _ => {}
        }
    }
    let _ = tx.send(json!({"call": "done"}));
}

/// bvh shell <scripts.ndjson> <trace.ndjson>
pub fn shell_cmd(args: &[String]) -> i32 {
    use std::io::{BufRead, Write};
    let file = std::fs::File::open(&args[0]).expect("scripts file");
    let mut out = std::io::BufWriter::new(std::fs::File::create(&args[1]).expect("trace file"));
    let mut hangs = 0usize;
    for line in std::io::BufReader::new(file).lines() {
        let line = line.expect("read");
        if line.trim().is_empty() {
            continue;
        }
        let case: Value = serde_json::from_str(&line).expect("script json");
        let id = case["id"].clone();
        let mut evs: Vec<Value> = vec![];
        let mut end = "ok".to_string();
        let mut last_begin = Value::Null;
        if hangs >= 6 {
            end = "skipped_after_hangs".into();
        } else {
            let (tx, rx) = mpsc::channel();
            let case2 = case.clone();
            std::thread::Builder::new().stack_size(64 << 20).spawn(move || run_script(case2, tx)).expect("thread");
            loop {
                match rx.recv_timeout(Duration::from_millis(3000)) {
                    Ok(v) => {
                        let call = v["call"].as_str().unwrap_or("").to_string();
                        if call == "done" {
                            break;
                        }
                        if call == "begin" {
                            last_begin = v;
                            continue;
                        }
                        let is_panic = call == "panic";
                        if is_panic {
                            let mut v2 = v.clone();
                            v2["during"] = last_begin.clone();
                            evs.push(v2);
                            end = "panic".into();
                            break;
                        }
                        evs.push(v);
                    }
                    Err(mpsc::RecvTimeoutError::Timeout) => {
                        evs.push(json!({"call": "hang", "during": last_begin}));
                        end = "hang".into();
                        hangs += 1;
                        break;
                    }
                    Err(mpsc::RecvTimeoutError::Disconnected) => {
                        // the script's thread ended without reporting the end of the script: it died
                        evs.push(json!({"call": "panic", "text": "script thread died", "during": last_begin}));
                        end = "panic".into();
                        break;
                    }
                }
            }
        }
        // every event needs the same fields for the trace reader
        let blank = json!({"state": "", "cont": "", "direct": false, "entry0": false, "dirty": false, "colpos": false,
                           "ierr": false, "derr": false});
        let evs: Vec<Value> = evs.into_iter().map(|e| json!({
            "call": e["call"], "cls": e.get("cls").cloned().unwrap_or(json!("")), "ret": e.get("ret").cloned().unwrap_or(json!("")),
            "run": e.get("run").cloned().unwrap_or(json!(false)), "post": e.get("post").cloned().unwrap_or(blank.clone()),
            "info": e.get("during").map(|d| d.to_string()).unwrap_or_default()})).collect();
        let rec = json!({"id": id, "ev": evs, "end": end});
        out.write_all(serde_json::to_string(&rec).unwrap().as_bytes()).unwrap();
        out.write_all(b"\n").unwrap();
    }
    0
}
