//! Drive sessions (commands carrying ASTs) through the real interpreter and record, per
//! command, the observed response and the probe: the trace TLC validates.
use crate::render;
use crate::session::{ev_json, probe_json, Ev, Session};
use crate::val::string_to_cps;
use serde_json::{json, Value};

/// merge events into response items in the shape of the specification's `resp`
pub fn items(evs: &[Ev]) -> Vec<Value> {
    // a command that ran into the opcode budget may have produced an enormous response: the
    // first events are enough to see that it differs from the specified one
    let cap = if matches!(evs.last(), Some(Ev::Budget)) { 200 } else { 200_000 };
    let evs = if evs.len() > cap { &evs[..cap] } else { evs };
    let mut out: Vec<Value> = vec![];
    let mut cur: Option<String> = None;
    fn flush(out: &mut Vec<Value>, cur: &mut Option<String>) {
        if let Some(s) = cur.take() {
            if !s.is_empty() {
                out.push(json!({"k":"out","s":string_to_cps(&s)}));
            }
        }
    }
    for e in evs {
        match e {
            Ev::Print(s) => {
                cur.get_or_insert_with(String::new).push_str(s);
            }
            Ev::Errors(v) => {
                flush(&mut out, &mut cur);
                out.push(json!({"k":"err","errs": v.iter().map(|x| json!({
                    "code": x.code, "line": x.line.map(|l| l as i64).unwrap_or(-1),
                    "c0": x.col.0, "c1": x.col.1})).collect::<Vec<_>>()}));
            }
            Ev::Input(p, caps) => {
                flush(&mut out, &mut cur);
                out.push(json!({"k":"input","s":string_to_cps(p),"caps":caps}));
            }
            Ev::List(s, cols) => {
                flush(&mut out, &mut cur);
                let ln: i64 = s.split(' ').next().and_then(|x| x.parse().ok()).unwrap_or(-1);
                out.push(json!({"k":"list","ln":ln,"text":s,"s":string_to_cps(s),
                    "cols": cols.iter().map(|c| json!([c.0, c.1])).collect::<Vec<_>>()}));
            }
            Ev::Cls => {
                flush(&mut out, &mut cur);
                out.push(json!({"k":"cls"}));
            }
            Ev::Stopped | Ev::Inkey | Ev::Budget | Ev::Panic(_) | Ev::Load(_) | Ev::Run(_) | Ev::Save(_) => {}
        }
    }
    flush(&mut out, &mut cur);
    out
}

fn out_so_far(its: &[Value]) -> Value {
    match its.last() {
        Some(v) if v["k"] == "out" => v["s"].clone(),
        _ => json!([]),
    }
}

pub fn wait_kind(evs: &[Ev]) -> &'static str {
    match evs.last() {
        Some(Ev::Stopped) => "ready",
        Some(Ev::Input(..)) => "input",
        Some(Ev::Inkey) => "inkey",
        Some(Ev::Budget) => "budget",
        Some(Ev::Panic(_)) => "panic",
        Some(Ev::Load(_)) | Some(Ev::Run(_)) | Some(Ev::Save(_)) => "file",
        _ => "none",
    }
}

/// the probe in the shape TraceMachine expects
pub fn tlc_probe(s: &Session) -> Value {
    let p = s.probe();
    let j = probe_json(&p);
    let deft: Vec<&str> = p
        .types
        .iter()
        .map(|c| match *c {
            b'%' => "I",
            b'!' => "S",
            b'#' => "D",
            _ => "$",
        })
        .collect();
    json!({"vars": j["vars"], "dims": j["dims"], "deft": deft, "fns": j["fns"], "tron": j["tron"],
           "col": j["col"], "dptr": j["dptr"], "frames": j["frames"], "junk": j["junk"],
           "cancont": p.cont != "Stopped", "state": p.state, "dirty": p.dirty,
           "depth": j["depth"], "nvars": j["nvars"], "hidden": j["hidden"]})
}

/// run one session; returns the trace record {id, cmds:[{cmd, text, ints, intpre, resp, wait, probe}], anomalies}
pub fn run_session(case: &Value) -> Value {
    let mut s = Session::new();
    if let Some(q) = case["quantum"].as_u64() {
        s.quantum = q as usize;
    }
    if let Some(b) = case["budget"].as_u64() {
        s.budget = b as usize;
    }
    s.drain();
    let mut recs = vec![];
    let mut anomalies = vec![];
    let mut untranslatable = false;
    for c0 in case["cmds"].as_array().unwrap_or(&vec![]) {
        // a command given as text only: a reply if the interpreter waits for one, else a line that the
        // interpreter's own parser turns into the AST the specification is fed with
        let mut c_owned = c0.clone();
        if c0["k"] == "text" {
            let t = c0["text"].as_str().unwrap_or("").to_string();
            let waiting = s.probe().state == "Input";
            if waiting {
                c_owned = json!({"k": "reply", "s": string_to_cps(&t), "text": t});
            } else {
                match crate::fromtext::command(&t) {
                    Some(mut cmd) => {
                        cmd["text"] = json!(t);
                        c_owned = cmd;
                    }
                    None if crate::fromtext::panics(&t) => {
                        // the interpreter's own parser panics on this text: enter it all the same, the guarded
                        // call below observes the panic
                        c_owned = json!({"k": "direct", "stmts": [{"k": "bad", "code": 2, "txt": "", "cp": []}], "text": t});
                    }
                    None => {
                        // not expressible in the specification's AST: the session ends here, set aside
                        anomalies.push(json!({"cmd": t, "wait": "untranslatable"}));
                        untranslatable = true;
                        break;
                    }
                }
            }
        }
        let c = &c_owned;
        let kind = c["k"].as_str().unwrap_or("");
        // a command may carry the text to type (a spelling variant of its rendering)
        let text = match c["text"].as_str() {
            Some(t) => t.to_string(),
            None => render::command_text(c),
        };
        let mut evs: Vec<Ev> = vec![];
        let mut ints = 0;
        let mut intpre = json!([]);
        let mut intprobe = json!({"line": -1, "vars": []});
        match kind {
            "int" => {
                s.interrupt();
                evs = s.drain();
            }
            _ => {
                if let Some(p) = s.enter(&text) {
                    evs.push(p);
                } else if let Some(k) = c["int_after"].as_u64() {
                    // deliver an interrupt after k opcodes (if the command is still running)
                    let mut n = 0u64;
                    let mut done = false;
                    while n < k {
                        n += 1;
                        if let Some(ev) = s.step(1) {
                            let stop = matches!(ev, Ev::Stopped | Ev::Input(..) | Ev::Inkey | Ev::Panic(_)
                                | Ev::Load(_) | Ev::Run(_) | Ev::Save(_));
                            evs.push(ev);
                            if stop {
                                done = true;
                                break;
                            }
                        }
                    }
                    // only a running program is interrupted here (the phases in which the shell
                    // reports an error or prints the prompt belong to C03's schedules)
                    let st = s.probe().state;
                    if !done && (st == "Running" || st == "InputRunning") {
                        intpre = out_so_far(&items(&evs));
                        let p = s.probe();
                        let pj = probe_json(&p);
                        intprobe = json!({"line": pj["line_pc"], "vars": pj["vars"], "state": p.state});
                        s.interrupt();
                        ints = 1;
                        evs.extend(s.drain());
                    } else if !done {
                        evs.extend(s.drain());
                    }
                } else {
                    evs = s.drain();
                }
            }
        }
        let w = wait_kind(&evs);
        if w == "panic" || w == "budget" || w == "none" {
            anomalies.push(json!({"cmd": text, "wait": w,
                "events": evs.iter().map(ev_json).collect::<Vec<_>>()}));
        }
        // RENUM may fail for reasons the manual does not enumerate (then it changes nothing): the
        // recorded event says whether it did, the specification checks the rest
        let mut c = c.clone();
        if kind == "direct" {
            let failed = evs.iter().any(|e| matches!(e, Ev::Errors(_)));
            if let Some(st) = c["stmts"].as_array_mut() {
                for s_ in st.iter_mut() {
                    if s_["k"] == "renum" {
                        s_["obsfail"] = json!(failed);
                    }
                }
            }
        }
        recs.push(json!({"cmd": c, "text": text, "ints": ints, "intpre": intpre, "intprobe": intprobe,
            "resp": items(&evs), "wait": w, "probe": tlc_probe(&s), "steps": s.steps}));
        if w == "panic" {
            break;
        }
    }
    json!({"id": case["id"], "cmds": recs, "anomalies": anomalies, "big": case["big"].as_bool().unwrap_or(false),
           "untranslatable": untranslatable, "textual": case["textual"].as_bool().unwrap_or(false)})
}

/// Expand a session carrying {"sweep": {"cmd": i, "max": M, "inspect": bool}} into one session per
/// interruption point: the command at index i (0-based) is run once without interruption, one
/// opcode at a time, to count its opcodes N; then for every k in 1..N (all of them when N <= M,
/// else M evenly spread) a session is produced in which an interrupt is delivered after k opcodes
/// of that command, followed (optionally) by an inspecting direct statement and by CONT.
pub fn expand_sweep(case: &Value) -> Vec<Value> {
    let sw = &case["sweep"];
    if sw.is_null() {
        return vec![case.clone()];
    }
    let idx = sw["cmd"].as_u64().unwrap_or(0) as usize;
    let max = sw["max"].as_u64().unwrap_or(200) as usize;
    let cmds = case["cmds"].as_array().cloned().unwrap_or_default();
    if idx >= cmds.len() {
        return vec![];
    }
    // dry run
    let mut s = Session::new();
    s.drain();
    for c in &cmds[..idx] {
        let text = render::command_text(c);
        if s.enter(&text).is_some() {
            return vec![];
        }
        s.drain();
    }
    let text = render::command_text(&cmds[idx]);
    if s.enter(&text).is_some() {
        return vec![];
    }
    let mut n = 0usize;
    loop {
        let st = s.probe().state;
        if st != "Running" && st != "InputRunning" && n > 0 {
            n += 1;
            break;
        }
        n += 1;
        if n > 200_000 {
            break;
        }
        if let Some(ev) = s.step(1) {
            if matches!(ev, Ev::Stopped | Ev::Input(..) | Ev::Inkey | Ev::Panic(_) | Ev::Load(_) | Ev::Run(_) | Ev::Save(_)) {
                break;
            }
        }
    }
    // after the last of these steps the program is no longer running: nothing to interrupt
    let total = n.saturating_sub(2);
    let ks: Vec<usize> = if total <= max {
        (1..=total).collect()
    } else {
        (0..max).map(|i| 1 + i * total / max).collect()
    };
    let mut out = vec![];
    for k in ks {
        let mut cs = cmds[..idx].to_vec();
        let mut c = cmds[idx].clone();
        c["int_after"] = json!(k);
        cs.push(c);
        if let Some(insp) = sw.get("inspect") {
            if !insp.is_null() {
                cs.push(insp.clone());
            }
        }
        cs.push(json!({"k":"direct","stmts":[{"k":"cont"}]}));
        for c in &cmds[idx + 1..] {
            cs.push(c.clone());
        }
        let mut d = case.clone();
        d["cmds"] = Value::Array(cs);
        d["id"] = json!(format!("{}#{}", case["id"].as_str().unwrap_or("s"), k));
        d.as_object_mut().unwrap().remove("sweep");
        out.push(d);
    }
    out
}
